#!/bin/bash
# offline setup: build the rewriter; warm the SX build cache for the current /repo tree
set -e
cd "$(dirname "$0")"
export CARGO_NET_OFFLINE=true
(cd tools/symx && cargo build --release --offline 2>&1 | tail -2)
python3 vlib/build.py lib 2>&1 | tail -3
