// symnum: shadow number type for f32 used by the SX engine (see /verif/DESIGN.md §3.3).
//
// `Sx { v, t }` carries the concrete single-precision value `v` and, when `t != 0`, the id of a term in a
// thread-local DAG describing how the value was computed from the symbolic inputs.  With `t == 0` every
// operation is exactly the primitive f32 operation, which is why the repository's own test-suite passes on
// the rewritten crate.  Comparisons on symbolic operands return the concrete outcome and log the condition.
#![allow(dead_code, clippy::all)]
use std::cell::RefCell;
use std::cmp::Ordering;
use std::collections::BTreeSet;
use std::fmt;
use std::ops::*;
use std::str::FromStr;

type P = core::primitive::f32;

#[derive(Clone, Debug, PartialEq)]
pub enum Term {
    Var(u32),
    Const(u32), // bits
    Add(u32, u32),
    Sub(u32, u32),
    Mul(u32, u32),
    Div(u32, u32),
    Neg(u32),
    Abs(u32),
    Min(u32, u32),
    Max(u32, u32),
    Floor(u32),
    Ceil(u32),
    Round(u32),
    Trunc(u32),
    App(&'static str, Vec<u32>),
}

#[derive(Clone, Debug)]
pub enum Cond {
    Lt(u32, u32),
    Le(u32, u32),
    Eq(u32, u32),
}

#[derive(Default)]
pub struct Engine {
    pub terms: Vec<Term>, // index 0 unused
    pub vals: Vec<P>,     // concrete value of each term under the current valuation
    pub meta: Vec<Meta>,  // per term: interval + grain
    pub path: Vec<(Cond, bool, u32, &'static str)>, // branch log: condition, outcome, document index, function
    pub vars: Vec<P>,     // concrete valuation of Var(k)
    pub doms: Vec<(f64, f64, i32)>, // per var: lo, hi, shift (value = k * 2^-shift)
    pub fstr_terms: Vec<u32>, // terms that went through number formatting
    pub concretized: u32,
    pub token_damage: u32,
    pub cur_doc: u32,
    pub steps: u64,
    pub budget: u64,
    pub fnstack: Vec<&'static str>,
    pub symfns: BTreeSet<&'static str>,
}

/// value is an integer multiple of 2^-grain (grain = INEXACT: unknown) and lies in [lo, hi]
#[derive(Clone, Copy, Debug)]
pub struct Meta {
    pub lo: f64,
    pub hi: f64,
    pub grain: i32,
    pub exact: bool,
}
pub const INEXACT: i32 = i32::MAX;

thread_local! {
    pub static ENGINE: RefCell<Engine> = RefCell::new(Engine {
        terms: vec![Term::Const(0)],
        vals: vec![0.0],
        meta: vec![Meta { lo: 0.0, hi: 0.0, grain: 0, exact: true }],
        ..Default::default()
    });
}

/// function-entry guard inserted by the rewriter
pub struct Guard(bool);
pub const BUDGET_MSG: &str = "SX_STEP_BUDGET";
#[inline]
pub fn enter(name: &'static str) -> Guard {
    let over = ENGINE
        .try_with(|e| {
            if let Ok(mut e) = e.try_borrow_mut() {
                e.steps += 1;
                e.fnstack.push(name);
                e.budget != 0 && e.steps > e.budget
            } else {
                false
            }
        })
        .unwrap_or(false);
    if over {
        ENGINE.with(|e| e.borrow_mut().budget = 0);
        panic!("{}", BUDGET_MSG);
    }
    Guard(true)
}
impl Drop for Guard {
    fn drop(&mut self) {
        let _ = ENGINE.try_with(|e| {
            if let Ok(mut e) = e.try_borrow_mut() {
                e.fnstack.pop();
            }
        });
    }
}

#[derive(Clone, Copy)]
pub struct Sx {
    v: P,
    t: u32,
}

pub const fn lit(v: P) -> Sx {
    Sx { v, t: 0 }
}

pub mod consts {
    use super::{lit, Sx};
    use core::f32::consts as c;
    pub const PI: Sx = lit(c::PI);
    pub const TAU: Sx = lit(c::TAU);
    pub const E: Sx = lit(c::E);
    pub const SQRT_2: Sx = lit(c::SQRT_2);
    pub const FRAC_1_SQRT_2: Sx = lit(c::FRAC_1_SQRT_2);
    pub const FRAC_PI_2: Sx = lit(c::FRAC_PI_2);
    pub const FRAC_PI_3: Sx = lit(c::FRAC_PI_3);
    pub const FRAC_PI_4: Sx = lit(c::FRAC_PI_4);
    pub const FRAC_PI_6: Sx = lit(c::FRAC_PI_6);
    pub const FRAC_PI_8: Sx = lit(c::FRAC_PI_8);
    pub const FRAC_1_PI: Sx = lit(c::FRAC_1_PI);
    pub const FRAC_2_PI: Sx = lit(c::FRAC_2_PI);
    pub const FRAC_2_SQRT_PI: Sx = lit(c::FRAC_2_SQRT_PI);
    pub const LN_2: Sx = lit(c::LN_2);
    pub const LN_10: Sx = lit(c::LN_10);
    pub const LOG2_E: Sx = lit(c::LOG2_E);
    pub const LOG10_E: Sx = lit(c::LOG10_E);
    pub const LOG2_10: Sx = lit(c::LOG2_10);
    pub const LOG10_2: Sx = lit(c::LOG10_2);
}

fn const_meta(bits: u32) -> Meta {
    let v = P::from_bits(bits);
    if !v.is_finite() {
        return Meta { lo: f64::NEG_INFINITY, hi: f64::INFINITY, grain: INEXACT, exact: false };
    }
    if v == 0.0 {
        return Meta { lo: 0.0, hi: 0.0, grain: 0, exact: true };
    }
    let exp = ((bits >> 23) & 0xff) as i32;
    let man = bits & 0x7fffff;
    let (m, e2) = if exp == 0 { (man, -149) } else { (man | 0x800000, exp - 150) };
    let tz = m.trailing_zeros() as i32;
    // v = (m >> tz) * 2^(e2 + tz): grain = -(e2+tz) if negative exponent else 0
    let g = -(e2 + tz);
    Meta { lo: v as f64, hi: v as f64, grain: if g > 0 { g } else { 0 }, exact: true }
}
/// every multiple of 2^-grain inside [lo, hi] is representable in f32 (24-bit significand)
fn fits(lo: f64, hi: f64, grain: i32) -> bool {
    if grain == INEXACT || grain > 40 {
        return false;
    }
    let m = lo.abs().max(hi.abs());
    if m == 0.0 {
        return true;
    }
    if !m.is_finite() {
        return false;
    }
    m * (2f64).powi(grain) <= 16777216.0
}
fn meta_of(e: &Engine, t: &Term) -> Meta {
    let g = |i: &u32| e.meta[*i as usize];
    let bad = Meta { lo: f64::NEG_INFINITY, hi: f64::INFINITY, grain: INEXACT, exact: false };
    let fin = |lo: f64, hi: f64, grain: i32, parents_exact: bool| {
        let ex = parents_exact && fits(lo, hi, grain);
        Meta { lo, hi, grain: if ex { grain } else { INEXACT }, exact: ex }
    };
    match t {
        Term::Var(k) => {
            let (lo, hi, sh) = e.doms[*k as usize];
            fin(lo, hi, sh.max(0), true)
        }
        Term::Const(b) => const_meta(*b),
        Term::Add(a, b) => {
            let (x, y) = (g(a), g(b));
            fin(x.lo + y.lo, x.hi + y.hi, x.grain.max(y.grain), x.exact && y.exact)
        }
        Term::Sub(a, b) => {
            let (x, y) = (g(a), g(b));
            fin(x.lo - y.hi, x.hi - y.lo, x.grain.max(y.grain), x.exact && y.exact)
        }
        Term::Mul(a, b) => {
            let (x, y) = (g(a), g(b));
            let c = [x.lo * y.lo, x.lo * y.hi, x.hi * y.lo, x.hi * y.hi];
            let lo = c.iter().cloned().fold(f64::INFINITY, f64::min);
            let hi = c.iter().cloned().fold(f64::NEG_INFINITY, f64::max);
            let gr = if x.grain == INEXACT || y.grain == INEXACT { INEXACT } else { x.grain + y.grain };
            fin(lo, hi, gr, x.exact && y.exact)
        }
        Term::Div(a, b) => {
            let (x, y) = (g(a), g(b));
            // exact only when dividing by a concrete power of two
            if y.lo == y.hi && y.lo != 0.0 && y.exact {
                let d = y.lo.abs();
                let l2 = d.log2();
                if l2.fract() == 0.0 && x.grain != INEXACT {
                    let (lo, hi) = if y.lo > 0.0 { (x.lo / y.lo, x.hi / y.lo) } else { (x.hi / y.lo, x.lo / y.lo) };
                    return fin(lo, hi, (x.grain + l2 as i32).max(0), x.exact);
                }
            }
            bad
        }
        Term::Neg(a) => {
            let x = g(a);
            Meta { lo: -x.hi, hi: -x.lo, ..x }
        }
        Term::Abs(a) => {
            let x = g(a);
            let hi = x.lo.abs().max(x.hi.abs());
            let lo = if x.lo <= 0.0 && x.hi >= 0.0 { 0.0 } else { x.lo.abs().min(x.hi.abs()) };
            Meta { lo, hi, ..x }
        }
        Term::Min(a, b) => {
            let (x, y) = (g(a), g(b));
            let ex = x.exact && y.exact;
            Meta { lo: x.lo.min(y.lo), hi: x.hi.min(y.hi), grain: if ex { x.grain.max(y.grain) } else { INEXACT }, exact: ex }
        }
        Term::Max(a, b) => {
            let (x, y) = (g(a), g(b));
            let ex = x.exact && y.exact;
            Meta { lo: x.lo.max(y.lo), hi: x.hi.max(y.hi), grain: if ex { x.grain.max(y.grain) } else { INEXACT }, exact: ex }
        }
        Term::Floor(a) | Term::Ceil(a) | Term::Round(a) | Term::Trunc(a) => {
            let x = g(a);
            let (lo, hi) = (x.lo.floor(), x.hi.ceil());
            let ex = x.exact && fits(lo, hi, 0);
            Meta { lo, hi, grain: if ex { 0 } else { INEXACT }, exact: ex }
        }
        Term::App(..) => bad,
    }
}
fn mk(t: Term, v: P) -> u32 {
    ENGINE.with(|e| {
        let mut e = e.borrow_mut();
        let m = meta_of(&e, &t);
        e.terms.push(t);
        e.vals.push(v);
        e.meta.push(m);
        if let Some(f) = e.fnstack.last().copied() {
            e.symfns.insert(f);
        }
        (e.terms.len() - 1) as u32
    })
}
fn tid(x: Sx) -> u32 {
    if x.t != 0 {
        x.t
    } else {
        mk(Term::Const(x.v.to_bits()), x.v)
    }
}
fn branch(c: Cond, taken: bool) -> bool {
    ENGINE.with(|e| {
        let mut e = e.borrow_mut();
        let f = e.fnstack.last().copied().unwrap_or("?");
        e.symfns.insert(f);
        let d = e.cur_doc;
        e.path.push((c, taken, d, f));
    });
    taken
}

pub const TOKEN_PREFIX: &str = "8888";

impl Sx {
    pub const MAX: Sx = lit(P::MAX);
    pub const MIN: Sx = lit(P::MIN);
    pub const EPSILON: Sx = lit(P::EPSILON);
    pub const INFINITY: Sx = lit(P::INFINITY);
    pub const NEG_INFINITY: Sx = lit(P::NEG_INFINITY);
    pub const NAN: Sx = lit(P::NAN);
    pub const MIN_POSITIVE: Sx = lit(P::MIN_POSITIVE);
    pub fn conc(v: P) -> Sx {
        Sx { v, t: 0 }
    }
    pub fn value(self) -> P {
        self.v
    }
    pub fn term(self) -> u32 {
        self.t
    }
    pub fn is_concrete(self) -> bool {
        self.t == 0
    }
    /// fresh symbolic input: value = k * 2^-shift with lo <= value <= hi; v is the concrete shadow value
    pub fn var_dom(v: P, lo: f64, hi: f64, shift: i32) -> Sx {
        let k = ENGINE.with(|e| {
            let mut e = e.borrow_mut();
            e.vars.push(v);
            e.doms.push((lo, hi, shift));
            (e.vars.len() - 1) as u32
        });
        Sx { v, t: mk(Term::Var(k), v) }
    }
    pub fn token(self) -> String {
        format!("{}{:06}.5", TOKEN_PREFIX, self.t)
    }
    fn from_token(s: &str) -> Option<Sx> {
        let r = s.strip_prefix(TOKEN_PREFIX)?.strip_suffix(".5")?;
        if r.len() != 6 || !r.bytes().all(|b| b.is_ascii_digit()) {
            return None;
        }
        let t: u32 = r.parse().ok()?;
        let v = ENGINE.with(|e| e.borrow().vals.get(t as usize).copied())?;
        if t == 0 {
            return None;
        }
        Some(Sx { v, t })
    }
    fn un(self, v: P, mkterm: fn(u32) -> Term) -> Sx {
        if self.t == 0 {
            Sx::conc(v)
        } else {
            Sx { v, t: mk(mkterm(self.t), v) }
        }
    }
    fn bin(self, o: Sx, v: P, mkterm: fn(u32, u32) -> Term) -> Sx {
        if self.t == 0 && o.t == 0 {
            Sx::conc(v)
        } else {
            Sx { v, t: mk(mkterm(tid(self), tid(o)), v) }
        }
    }
    fn app1(self, name: &'static str, v: P) -> Sx {
        if self.t == 0 {
            Sx::conc(v)
        } else {
            Sx { v, t: mk(Term::App(name, vec![self.t]), v) }
        }
    }
    fn app2(self, o: Sx, name: &'static str, v: P) -> Sx {
        if self.t == 0 && o.t == 0 {
            Sx::conc(v)
        } else {
            Sx { v, t: mk(Term::App(name, vec![tid(self), tid(o)]), v) }
        }
    }
    pub fn abs(self) -> Sx {
        self.un(self.v.abs(), Term::Abs)
    }
    pub fn floor(self) -> Sx {
        self.un(self.v.floor(), Term::Floor)
    }
    pub fn ceil(self) -> Sx {
        self.un(self.v.ceil(), Term::Ceil)
    }
    pub fn round(self) -> Sx {
        self.un(self.v.round(), Term::Round)
    }
    pub fn trunc(self) -> Sx {
        self.un(self.v.trunc(), Term::Trunc)
    }
    pub fn min(self, o: Sx) -> Sx {
        self.bin(o, self.v.min(o.v), Term::Min)
    }
    pub fn max(self, o: Sx) -> Sx {
        self.bin(o, self.v.max(o.v), Term::Max)
    }
    pub fn clamp(self, lo: Sx, hi: Sx) -> Sx {
        // same panic behaviour as f32::clamp on the concrete values
        let v = self.v.clamp(lo.v, hi.v);
        if self.t == 0 && lo.t == 0 && hi.t == 0 {
            return Sx::conc(v);
        }
        let r = self.max(lo).min(hi);
        Sx { v, t: r.t }
    }
    pub fn fract(self) -> Sx {
        self.app1("fract", self.v.fract())
    }
    pub fn signum(self) -> Sx {
        self.app1("signum", self.v.signum())
    }
    pub fn sqrt(self) -> Sx {
        self.app1("sqrt", self.v.sqrt())
    }
    pub fn cbrt(self) -> Sx {
        self.app1("cbrt", self.v.cbrt())
    }
    pub fn recip(self) -> Sx {
        lit(1.0) / self
    }
    pub fn ln(self) -> Sx {
        self.app1("ln", self.v.ln())
    }
    pub fn log10(self) -> Sx {
        self.app1("log10", self.v.log10())
    }
    pub fn log2(self) -> Sx {
        self.app1("log2", self.v.log2())
    }
    pub fn log(self, o: Sx) -> Sx {
        self.app2(o, "log", self.v.log(o.v))
    }
    pub fn exp(self) -> Sx {
        self.app1("exp", self.v.exp())
    }
    pub fn exp2(self) -> Sx {
        self.app1("exp2", self.v.exp2())
    }
    pub fn sin(self) -> Sx {
        self.app1("sin", self.v.sin())
    }
    pub fn cos(self) -> Sx {
        self.app1("cos", self.v.cos())
    }
    pub fn tan(self) -> Sx {
        self.app1("tan", self.v.tan())
    }
    pub fn asin(self) -> Sx {
        self.app1("asin", self.v.asin())
    }
    pub fn acos(self) -> Sx {
        self.app1("acos", self.v.acos())
    }
    pub fn atan(self) -> Sx {
        self.app1("atan", self.v.atan())
    }
    pub fn sinh(self) -> Sx {
        self.app1("sinh", self.v.sinh())
    }
    pub fn cosh(self) -> Sx {
        self.app1("cosh", self.v.cosh())
    }
    pub fn tanh(self) -> Sx {
        self.app1("tanh", self.v.tanh())
    }
    pub fn sin_cos(self) -> (Sx, Sx) {
        (self.sin(), self.cos())
    }
    pub fn to_radians(self) -> Sx {
        self.app1("to_radians", self.v.to_radians())
    }
    pub fn to_degrees(self) -> Sx {
        self.app1("to_degrees", self.v.to_degrees())
    }
    pub fn powf(self, o: Sx) -> Sx {
        self.app2(o, "powf", self.v.powf(o.v))
    }
    pub fn powi(self, n: i32) -> Sx {
        if self.t == 0 {
            return Sx::conc(self.v.powi(n));
        }
        if (0..=4).contains(&n) {
            let mut r = lit(1.0);
            for _ in 0..n {
                r = r * self;
            }
            return Sx { v: self.v.powi(n), t: tid(r) };
        }
        Sx { v: self.v.powi(n), t: mk(Term::App("powi", vec![self.t, tid(lit(n as P))]), self.v.powi(n)) }
    }
    pub fn atan2(self, o: Sx) -> Sx {
        self.app2(o, "atan2", self.v.atan2(o.v))
    }
    pub fn hypot(self, o: Sx) -> Sx {
        self.app2(o, "hypot", self.v.hypot(o.v))
    }
    pub fn copysign(self, o: Sx) -> Sx {
        self.app2(o, "copysign", self.v.copysign(o.v))
    }
    pub fn rem_euclid(self, o: Sx) -> Sx {
        self.app2(o, "rem_euclid", self.v.rem_euclid(o.v))
    }
    pub fn div_euclid(self, o: Sx) -> Sx {
        self.app2(o, "div_euclid", self.v.div_euclid(o.v))
    }
    pub fn mul_add(self, a: Sx, b: Sx) -> Sx {
        let v = self.v.mul_add(a.v, b.v);
        if self.t == 0 && a.t == 0 && b.t == 0 {
            return Sx::conc(v);
        }
        let r = self * a + b;
        Sx { v, t: r.t }
    }
    pub fn is_nan(self) -> bool {
        self.v.is_nan()
    }
    pub fn is_finite(self) -> bool {
        self.v.is_finite()
    }
    pub fn is_infinite(self) -> bool {
        self.v.is_infinite()
    }
    pub fn is_sign_negative(self) -> bool {
        if self.t == 0 {
            return self.v.is_sign_negative();
        }
        self < lit(0.0)
    }
    pub fn is_sign_positive(self) -> bool {
        !self.is_sign_negative()
    }
    pub fn to_bits(self) -> u32 {
        self.concretize().to_bits()
    }
    pub fn from_bits(b: u32) -> Sx {
        Sx::conc(P::from_bits(b))
    }
    pub fn total_cmp(&self, o: &Sx) -> Ordering {
        if self.t == 0 && o.t == 0 {
            return self.v.total_cmp(&o.v);
        }
        if *self < *o {
            Ordering::Less
        } else if *self == *o {
            Ordering::Equal
        } else {
            Ordering::Greater
        }
    }
    /// concretise: pins the symbolic value to its current concrete value on this path
    pub fn concretize(self) -> P {
        if self.t != 0 {
            let c = mk(Term::Const(self.v.to_bits()), self.v);
            branch(Cond::Eq(self.t, c), true);
            ENGINE.with(|e| e.borrow_mut().concretized += 1);
        }
        self.v
    }
}

impl Default for Sx {
    fn default() -> Self {
        Sx::conc(0.0)
    }
}
impl fmt::Debug for Sx {
    fn fmt(&self, f: &mut fmt::Formatter<'_>) -> fmt::Result {
        if self.t == 0 {
            fmt::Debug::fmt(&self.v, f)
        } else {
            note_fstr(self.t);
            write!(f, "{}", self.token())
        }
    }
}
impl fmt::Display for Sx {
    fn fmt(&self, f: &mut fmt::Formatter<'_>) -> fmt::Result {
        if self.t == 0 {
            fmt::Display::fmt(&self.v, f)
        } else {
            note_fstr(self.t);
            write!(f, "{}", self.token())
        }
    }
}
impl FromStr for Sx {
    type Err = core::num::ParseFloatError;
    fn from_str(s: &str) -> Result<Self, Self::Err> {
        if let Some(x) = Sx::from_token(s) {
            return Ok(x);
        }
        if let Some(r) = s.strip_prefix('-') {
            if let Some(x) = Sx::from_token(r) {
                return Ok(-x);
            }
        }
        if let Some(r) = s.strip_prefix('+') {
            if let Some(x) = Sx::from_token(r) {
                return Ok(x);
            }
        }
        let r = s.parse::<P>().map(Sx::conc);
        if let Ok(x) = &r {
            // a concrete number in the token range means a token was damaged by string processing
            if x.v.abs() >= 8.0e9 && x.v.is_finite() && s.contains(TOKEN_PREFIX) {
                ENGINE.with(|e| e.borrow_mut().token_damage += 1);
            }
        }
        r
    }
}
impl PartialEq for Sx {
    fn eq(&self, o: &Sx) -> bool {
        let r = self.v == o.v;
        if self.t == 0 && o.t == 0 {
            r
        } else {
            branch(Cond::Eq(tid(*self), tid(*o)), r)
        }
    }
}
impl PartialOrd for Sx {
    fn partial_cmp(&self, o: &Sx) -> Option<Ordering> {
        if self.t == 0 && o.t == 0 {
            return self.v.partial_cmp(&o.v);
        }
        if self.v.is_nan() || o.v.is_nan() {
            return None;
        }
        if self.lt(o) {
            Some(Ordering::Less)
        } else if self.eq(o) {
            Some(Ordering::Equal)
        } else {
            Some(Ordering::Greater)
        }
    }
    fn lt(&self, o: &Sx) -> bool {
        let r = self.v < o.v;
        if self.t == 0 && o.t == 0 {
            r
        } else {
            branch(Cond::Lt(tid(*self), tid(*o)), r)
        }
    }
    fn le(&self, o: &Sx) -> bool {
        let r = self.v <= o.v;
        if self.t == 0 && o.t == 0 {
            r
        } else {
            branch(Cond::Le(tid(*self), tid(*o)), r)
        }
    }
    fn gt(&self, o: &Sx) -> bool {
        let r = self.v > o.v;
        if self.t == 0 && o.t == 0 {
            r
        } else {
            branch(Cond::Lt(tid(*o), tid(*self)), r)
        }
    }
    fn ge(&self, o: &Sx) -> bool {
        let r = self.v >= o.v;
        if self.t == 0 && o.t == 0 {
            r
        } else {
            branch(Cond::Le(tid(*o), tid(*self)), r)
        }
    }
}
macro_rules! binop {
    ($tr:ident, $m:ident, $tra:ident, $ma:ident, $op:tt, $f:expr) => {
        impl $tr for Sx {
            type Output = Sx;
            fn $m(self, o: Sx) -> Sx { $f(self, o, self.v $op o.v) }
        }
        impl $tr<&Sx> for Sx {
            type Output = Sx;
            fn $m(self, o: &Sx) -> Sx { $f(self, *o, self.v $op o.v) }
        }
        impl $tr<Sx> for &Sx {
            type Output = Sx;
            fn $m(self, o: Sx) -> Sx { $f(*self, o, self.v $op o.v) }
        }
        impl $tr<&Sx> for &Sx {
            type Output = Sx;
            fn $m(self, o: &Sx) -> Sx { $f(*self, *o, self.v $op o.v) }
        }
        impl $tra for Sx {
            fn $ma(&mut self, o: Sx) { *self = $f(*self, o, self.v $op o.v) }
        }
        impl $tra<&Sx> for Sx {
            fn $ma(&mut self, o: &Sx) { *self = $f(*self, *o, self.v $op o.v) }
        }
    };
}
binop!(Add, add, AddAssign, add_assign, +, |a: Sx, b: Sx, v: P| a.bin(b, v, Term::Add));
binop!(Sub, sub, SubAssign, sub_assign, -, |a: Sx, b: Sx, v: P| a.bin(b, v, Term::Sub));
binop!(Mul, mul, MulAssign, mul_assign, *, |a: Sx, b: Sx, v: P| a.bin(b, v, Term::Mul));
binop!(Div, div, DivAssign, div_assign, /, |a: Sx, b: Sx, v: P| a.bin(b, v, Term::Div));
binop!(Rem, rem, RemAssign, rem_assign, %, |a: Sx, b: Sx, v: P| a.app2(b, "rem", v));
impl Neg for Sx {
    type Output = Sx;
    fn neg(self) -> Sx {
        self.un(-self.v, Term::Neg)
    }
}
impl Neg for &Sx {
    type Output = Sx;
    fn neg(self) -> Sx {
        (*self).un(-self.v, Term::Neg)
    }
}
impl std::iter::Sum for Sx {
    fn sum<I: Iterator<Item = Sx>>(iter: I) -> Sx {
        // same fold as <f32 as Sum>: starts from -0.0 in recent std, which prints/behaves as 0 in all uses here
        iter.fold(Sx::conc(0.0), |a, b| a + b)
    }
}
impl<'a> std::iter::Sum<&'a Sx> for Sx {
    fn sum<I: Iterator<Item = &'a Sx>>(iter: I) -> Sx {
        iter.fold(Sx::conc(0.0), |a, b| a + *b)
    }
}
impl std::iter::Product for Sx {
    fn product<I: Iterator<Item = Sx>>(iter: I) -> Sx {
        iter.fold(Sx::conc(1.0), |a, b| a * b)
    }
}
impl<'a> std::iter::Product<&'a Sx> for Sx {
    fn product<I: Iterator<Item = &'a Sx>>(iter: I) -> Sx {
        iter.fold(Sx::conc(1.0), |a, b| a * *b)
    }
}
impl rand::distr::Distribution<Sx> for rand::distr::StandardUniform {
    fn sample<R: rand::Rng + ?Sized>(&self, rng: &mut R) -> Sx {
        Sx::conc(rng.random::<P>())
    }
}
impl From<P> for Sx {
    fn from(v: P) -> Sx {
        Sx::conc(v)
    }
}
impl From<i16> for Sx {
    fn from(v: i16) -> Sx {
        Sx::conc(v as P)
    }
}
impl From<u16> for Sx {
    fn from(v: u16) -> Sx {
        Sx::conc(v as P)
    }
}
impl From<i8> for Sx {
    fn from(v: i8) -> Sx {
        Sx::conc(v as P)
    }
}
impl From<u8> for Sx {
    fn from(v: u8) -> Sx {
        Sx::conc(v as P)
    }
}

pub trait ToSx {
    fn to_sx(self) -> Sx;
}
macro_rules! tosx { ($($t:ty),*) => { $(impl ToSx for $t { fn to_sx(self) -> Sx { Sx::conc(self as P) } })* } }
tosx!(i8, i16, i32, i64, i128, isize, u8, u16, u32, u64, u128, usize, f64, P);
impl ToSx for Sx {
    fn to_sx(self) -> Sx {
        self
    }
}

pub trait ToPrim: Sized {
    fn to_i8(self) -> i8;
    fn to_i16(self) -> i16;
    fn to_i32(self) -> i32;
    fn to_i64(self) -> i64;
    fn to_isize(self) -> isize;
    fn to_u8(self) -> u8;
    fn to_u16(self) -> u16;
    fn to_u32(self) -> u32;
    fn to_u64(self) -> u64;
    fn to_usize(self) -> usize;
}
macro_rules! toprim {
    ($($t:ty),*) => { $(impl ToPrim for $t {
        fn to_i8(self) -> i8 { self as i8 } fn to_i16(self) -> i16 { self as i16 } fn to_i32(self) -> i32 { self as i32 }
        fn to_i64(self) -> i64 { self as i64 } fn to_isize(self) -> isize { self as isize } fn to_u8(self) -> u8 { self as u8 }
        fn to_u16(self) -> u16 { self as u16 } fn to_u32(self) -> u32 { self as u32 } fn to_u64(self) -> u64 { self as u64 }
        fn to_usize(self) -> usize { self as usize }
    })* };
}
toprim!(i8, i16, i32, i64, i128, isize, u8, u16, u32, u64, u128, usize, f64, P);
macro_rules! toprim_nofloat {
    ($($t:ty),*) => { $(impl ToPrim for $t {
        fn to_i8(self) -> i8 { self as i8 } fn to_i16(self) -> i16 { self as i16 } fn to_i32(self) -> i32 { self as i32 }
        fn to_i64(self) -> i64 { self as i64 } fn to_isize(self) -> isize { self as isize } fn to_u8(self) -> u8 { self as u8 }
        fn to_u16(self) -> u16 { self as u16 } fn to_u32(self) -> u32 { self as u32 } fn to_u64(self) -> u64 { self as u64 }
        fn to_usize(self) -> usize { self as usize }
    })* };
}
toprim_nofloat!(bool, char);
impl ToPrim for Sx {
    fn to_i8(self) -> i8 { self.concretize() as i8 }
    fn to_i16(self) -> i16 { self.concretize() as i16 }
    fn to_i32(self) -> i32 { self.concretize() as i32 }
    fn to_i64(self) -> i64 { self.concretize() as i64 }
    fn to_isize(self) -> isize { self.concretize() as isize }
    fn to_u8(self) -> u8 { self.concretize() as u8 }
    fn to_u16(self) -> u16 { self.concretize() as u16 }
    fn to_u32(self) -> u32 { self.concretize() as u32 }
    fn to_u64(self) -> u64 { self.concretize() as u64 }
    fn to_usize(self) -> usize { self.concretize() as usize }
}

fn note_fstr(t: u32) {
    ENGINE.with(|e| e.borrow_mut().fstr_terms.push(t));
}
/// hook for crate::types::fstr on symbolic values: the value is printed as its token
pub fn fstr_sym(x: Sx) -> String {
    note_fstr(x.t);
    x.token()
}

pub fn reset(budget: u64) {
    ENGINE.with(|e| {
        let mut e = e.borrow_mut();
        e.terms.truncate(1);
        e.vals.truncate(1);
        e.meta.truncate(1);
        e.path.clear();
        e.vars.clear();
        e.doms.clear();
        e.fstr_terms.clear();
        e.concretized = 0;
        e.token_damage = 0;
        e.cur_doc = 0;
        e.steps = 0;
        e.budget = budget;
        e.fnstack.clear();
        e.symfns.clear();
    });
}
pub fn set_doc(d: u32) {
    ENGINE.with(|e| {
        let mut e = e.borrow_mut();
        e.cur_doc = d;
        e.fnstack.clear();
    });
}
pub fn set_budget(b: u64) {
    ENGINE.with(|e| {
        let mut e = e.borrow_mut();
        e.budget = b;
        e.steps = 0;
    });
}
/// machine-readable dump of the run: one line per item
pub fn dump() -> String {
    ENGINE.with(|e| {
        let e = e.borrow();
        let mut s = String::new();
        for (k, (lo, hi, sh)) in e.doms.iter().enumerate() {
            s.push_str(&format!("VAR {k} {lo} {hi} {sh} {}\n", e.vars[k]));
        }
        for (i, t) in e.terms.iter().enumerate().skip(1) {
            let m = e.meta[i];
            let d = match t {
                Term::Var(k) => format!("var {k}"),
                Term::Const(b) => format!("const {}", b),
                Term::Add(a, b) => format!("add {a} {b}"),
                Term::Sub(a, b) => format!("sub {a} {b}"),
                Term::Mul(a, b) => format!("mul {a} {b}"),
                Term::Div(a, b) => format!("div {a} {b}"),
                Term::Neg(a) => format!("neg {a}"),
                Term::Abs(a) => format!("abs {a}"),
                Term::Min(a, b) => format!("min {a} {b}"),
                Term::Max(a, b) => format!("max {a} {b}"),
                Term::Floor(a) => format!("floor {a}"),
                Term::Ceil(a) => format!("ceil {a}"),
                Term::Round(a) => format!("round {a}"),
                Term::Trunc(a) => format!("trunc {a}"),
                Term::App(n, a) => format!("app {n} {}", a.iter().map(|x| x.to_string()).collect::<Vec<_>>().join(" ")),
            };
            let g = if m.exact { m.grain.to_string() } else { "-".to_string() };
            s.push_str(&format!("TERM {i} {} {g} {} {d}\n", if m.exact { "E" } else { "I" }, e.vals[i].to_bits()));
        }
        for (c, taken, doc, f) in &e.path {
            let (op, a, b) = match c {
                Cond::Lt(a, b) => ("lt", a, b),
                Cond::Le(a, b) => ("le", a, b),
                Cond::Eq(a, b) => ("eq", a, b),
            };
            s.push_str(&format!("PATH {} {op} {a} {b} {doc} {f}\n", if *taken { 1 } else { 0 }));
        }
        for t in &e.fstr_terms {
            s.push_str(&format!("FSTR {t}\n"));
        }
        for f in &e.symfns {
            s.push_str(&format!("SYMFN {f}\n"));
        }
        s.push_str(&format!("CONCRETIZED {}\n", e.concretized));
        s.push_str(&format!("TOKEN_DAMAGE {}\n", e.token_damage));
        s.push_str(&format!("STEPS {}\n", e.steps));
        s
    })
}
