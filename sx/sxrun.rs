// sxrun: line-protocol runner around the rewritten svgdx crate (built as an example of the scratch copy).
//   stdin, repeated:  "RUN <nvars> <ndocs> <budget> <flags>\n"
//                     nvars lines  "<value> <lo> <hi> <shift>"
//                     ndocs times  "DOC <len>\n" followed by <len> bytes; placeholders [[k]] stand for variable k
//   stdout: "BEGIN", per document "DOCRESULT <i> <ok|err|panic|timeout> <message>" (+ "OUTPUT <len>\n<bytes>\n" when ok),
//           the engine dump (VAR/TERM/PATH/FSTR/SYMFN/...), "END".
// All documents of one RUN share the engine (variables, term DAG), which is what twin comparisons need.
use std::io::{BufRead, Read, Write};
use svgdx::symnum::{self, Sx};
fn main() {
    let stdin = std::io::stdin();
    let mut inp = stdin.lock();
    let out = std::io::stdout();
    std::panic::set_hook(Box::new(|_| {}));
    loop {
        let mut line = String::new();
        if inp.read_line(&mut line).unwrap() == 0 {
            break;
        }
        let parts: Vec<&str> = line.split_whitespace().collect();
        if parts.len() < 4 || parts[0] != "RUN" {
            continue;
        }
        let n: usize = parts[1].parse().unwrap();
        let ndocs: usize = parts[2].parse().unwrap();
        let budget: u64 = parts[3].parse().unwrap();
        let flags = parts.get(4).copied().unwrap_or("-");
        symnum::reset(0);
        let mut toks = vec![];
        for _ in 0..n {
            let mut l = String::new();
            inp.read_line(&mut l).unwrap();
            let f: Vec<f64> = l.split_whitespace().map(|x| x.parse().unwrap()).collect();
            toks.push(Sx::var_dom(f[0] as f32, f[1], f[2], f[3] as i32).token());
        }
        let mut docs = vec![];
        for _ in 0..ndocs {
            let mut l = String::new();
            inp.read_line(&mut l).unwrap();
            let len: usize = l.split_whitespace().nth(1).unwrap().parse().unwrap();
            let mut buf = vec![0u8; len];
            inp.read_exact(&mut buf).unwrap();
            let mut doc = String::from_utf8(buf).unwrap();
            for (k, t) in toks.iter().enumerate().rev() {
                doc = doc.replace(&format!("[[{k}]]"), t);
            }
            docs.push(doc);
        }
        let mut o = out.lock();
        writeln!(o, "BEGIN").unwrap();
        for (i, doc) in docs.into_iter().enumerate() {
            symnum::set_doc(i as u32);
            symnum::set_budget(budget);
            let cfg = svgdx::TransformConfig {
                add_auto_styles: flags.contains("auto"),
                add_metadata: flags.contains("meta"),
                ..Default::default()
            };
            let res = std::panic::catch_unwind(|| svgdx::transform_str(doc, &cfg));
            symnum::set_budget(0);
            match res {
                Ok(Ok(s)) => {
                    writeln!(o, "DOCRESULT {i} ok").unwrap();
                    writeln!(o, "OUTPUT {}", s.len()).unwrap();
                    o.write_all(s.as_bytes()).unwrap();
                    writeln!(o).unwrap();
                }
                Ok(Err(e)) => {
                    let m = e.to_string().replace('\n', " | ");
                    writeln!(o, "DOCRESULT {i} err {m}").unwrap();
                }
                Err(p) => {
                    let msg = p
                        .downcast_ref::<String>()
                        .cloned()
                        .or_else(|| p.downcast_ref::<&str>().map(|s| s.to_string()))
                        .unwrap_or_default()
                        .replace('\n', " | ");
                    if msg.contains(symnum::BUDGET_MSG) {
                        writeln!(o, "DOCRESULT {i} timeout step budget exceeded").unwrap();
                    } else {
                        writeln!(o, "DOCRESULT {i} panic {msg}").unwrap();
                    }
                }
            }
        }
        write!(o, "{}", symnum::dump()).unwrap();
        writeln!(o, "END").unwrap();
        o.flush().unwrap();
    }
}
