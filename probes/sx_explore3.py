import sys; sys.path.insert(0, "/tmp/probe2")
from sx_proto import *
from explore1 import shape_bbox_terms, shapes
R = Runner(); Z = Z3(("z3","-in","-t:20000")); Z.p.stdin.write(PRELUDE)
# C12 surround: container kinds x margin forms over two rects A (v0..v3) and B (v4..v7); margin vars v8.. 
A = '<rect id="a" xy="{v0} {v1}" wh="{v2} {v3}"/>'; B = '<circle id="b" cxy="{v4} {v5}" r="{v6}"/>'
ua = ("v0", "v1", "(+ v0 v2)", "(+ v1 v3)"); ub = ("(- v4 v6)", "(- v5 v6)", "(+ v4 v6)", "(+ v5 v6)")
U = (f"(rmin {ua[0]} {ub[0]})", f"(rmin {ua[1]} {ub[1]})", f"(rmax {ua[2]} {ub[2]})", f"(rmax {ua[3]} {ub[3]})")
base = [(3.0,-256,256,1),(4.0,-256,256,1),(20.0,0,128,1),(10.0,0,128,1),(40.0,-256,256,1),(-7.0,-256,256,1),(6.0,0,64,1),
        (1.0,-16,16,1),(2.0,-16,16,1),(3.0,-16,16,1),(4.0,-16,16,1)]
margins = {"none": (None, ("0.0","0.0","0.0","0.0")), "1": ("{v7}", ("v7","v7","v7","v7")), "2": ("{v7} {v8}", ("v7","v8","v7","v8")),
           "3": ("{v7},{v8} {v9}", ("v7","v8","v9","v8")), "4": ("{v7} {v8} {v9} {v10}", ("v7","v8","v9","v10"))}
tot = bad = 0
for order in ("after", "before"):
  for cont in ("rect", "circle", "ellipse"):
    for mk, (mtxt, (T, Rr, Bm, L)) in margins.items():
        c = f'<{cont} id="s" surround="#a #b"' + (f' margin="{mtxt}"' if mtxt else "") + "/>"
        doc = "<svg>" + (A + B + c if order == "after" else c + A + B) + "</svg>"
        G = (f"(- {U[0]} {L})", f"(- {U[1]} {T})", f"(+ {U[2]} {Rr})", f"(+ {U[3]} {Bm})")
        def check(r, cont=cont, G=G):
            if not r["status"].startswith("ok"): return [("status " + r["status"][:80], "true")]
            sh = [e for e in shapes(r["output"]) if e.get("id") == "s"]
            b = shape_bbox_terms(sh[0])
            q = []
            left = set(sh[0].attrib) & {"surround", "inside", "margin"}
            if left: q.append(("leftover " + str(left), "true"))
            if cont == "rect":
                q += [(n, f"(not (= {b[i]} {G[i]}))") for i, n in enumerate(("x1","y1","x2","y2"))]
            else:
                # centre equality (tolerance-free on exact nodes) and enclosure with tolerance
                q.append(("cx", f"(not (= (/ (+ {b[0]} {b[2]}) 2.0) (/ (+ {G[0]} {G[2]}) 2.0)))"))
                q.append(("cy", f"(not (= (/ (+ {b[1]} {b[3]}) 2.0) (/ (+ {G[1]} {G[3]}) 2.0)))"))
                rx = f"(/ (- {b[2]} {b[0]}) 2.0)"; ry = f"(/ (- {b[3]} {b[1]}) 2.0)"
                hw = f"(/ (- {G[2]} {G[0]}) 2.0)"; hh = f"(/ (- {G[3]} {G[1]}) 2.0)"
                # corner (hw, hh) relative to centre must be inside ellipse (rx, ry): (hw*ry)^2 + (hh*rx)^2 <= (rx*ry)^2 * (1+tol)
                q.append(("encloses", f"(not (or (< {hw} 0.0) (< {hh} 0.0) (exists ((p Real) (q Real)) (and (= (* p {rx}) {hw}) (= (* q {ry}) {hh}) (<= (+ (* p p) (* q q)) 1.001)))))"))
            return q
        t0 = time.time()
        st, seen = explore(R, Z, doc, list(base), check, cap=8, real=(cont != "rect"))
        tot += 1
        flag = st["violations"] or not st["exhaustive"]
        print(order, cont, "margin", mk, "paths", st["paths"], "exh", st["exhaustive"], "inexact-br", st["inexact_branches"], "%.1fs" % (time.time()-t0), [(n, a, m) for (n, a, m, s) in st["violations"]][:3] if flag else "OK")
print("templates", tot, "z3 queries", Z.n, "z3 time %.1fs" % Z.t)
