// PROTOTYPE symbolic-number shadow type for f32 (concolic: concrete value + optional term)
#![allow(dead_code, clippy::all)]
use std::cell::RefCell;
use std::cmp::Ordering;
use std::fmt;
use std::ops::*;
use std::str::FromStr;

type P = core::primitive::f32;

#[derive(Clone, Debug, PartialEq)]
pub enum Term {
    Var(u32),
    Const(u32), // bits
    Add(u32, u32),
    Sub(u32, u32),
    Mul(u32, u32),
    Div(u32, u32),
    Neg(u32),
    Abs(u32),
    Min(u32, u32),
    Max(u32, u32),
    Floor(u32),
    Ceil(u32),
    App(&'static str, Vec<u32>),
}

#[derive(Clone, Debug)]
pub enum Cond {
    Lt(u32, u32),
    Le(u32, u32),
    Eq(u32, u32),
}

#[derive(Default)]
pub struct Engine {
    pub terms: Vec<Term>,        // index 0 unused
    pub meta: Vec<Meta>,         // per term: interval + grain
    pub path: Vec<(Cond, bool)>, // branch log
    pub vars: Vec<P>,            // concrete model for Var(k)
    pub doms: Vec<(f64, f64, i32)>, // per var: lo, hi, shift (value = k * 2^-shift)
    pub concretized: u32,
    pub active: bool,
}

/// value is an integer multiple of 2^-grain (grain = i32::MAX: unknown/inexact) and lies in [lo, hi]
#[derive(Clone, Copy, Debug)]
pub struct Meta { pub lo: f64, pub hi: f64, pub grain: i32, pub exact: bool }
pub const INEXACT: i32 = i32::MAX;

thread_local! {
    pub static ENGINE: RefCell<Engine> = RefCell::new(Engine { terms: vec![Term::Const(0)], meta: vec![Meta { lo: 0.0, hi: 0.0, grain: 0, exact: true }], ..Default::default() });
}

#[derive(Clone, Copy)]
pub struct Sx {
    v: P,
    t: u32,
}

pub const fn lit(v: P) -> Sx {
    Sx { v, t: 0 }
}

pub mod consts {
    use super::Sx;
    pub const FRAC_1_SQRT_2: Sx = super::lit(core::f32::consts::FRAC_1_SQRT_2);
    pub const SQRT_2: Sx = super::lit(core::f32::consts::SQRT_2);
    pub const E: Sx = super::lit(core::f32::consts::E);
    pub const PI: Sx = super::lit(core::f32::consts::PI);
}

fn const_meta(bits: u32) -> Meta {
    let v = P::from_bits(bits);
    if !v.is_finite() { return Meta { lo: f64::NEG_INFINITY, hi: f64::INFINITY, grain: INEXACT, exact: false }; }
    if v == 0.0 { return Meta { lo: 0.0, hi: 0.0, grain: 0, exact: true }; }
    let exp = ((bits >> 23) & 0xff) as i32;
    let man = bits & 0x7fffff;
    let (m, e2) = if exp == 0 { (man, -149) } else { (man | 0x800000, exp - 150) };
    let tz = m.trailing_zeros() as i32;
    // v = (m >> tz) * 2^(e2 + tz): grain = -(e2+tz) if negative exponent else 0
    let g = -(e2 + tz);
    Meta { lo: v as f64, hi: v as f64, grain: if g > 0 { g } else { 0 }, exact: true }
}
fn fits(lo: f64, hi: f64, grain: i32) -> bool {
    if grain == INEXACT { return false; }
    let m = lo.abs().max(hi.abs());
    if m == 0.0 { return true; }
    // need m * 2^grain <= 2^24
    m * (2f64).powi(grain) <= 16777216.0
}
fn meta_of(e: &Engine, t: &Term) -> Meta {
    let g = |i: &u32| e.meta[*i as usize];
    let bad = Meta { lo: f64::NEG_INFINITY, hi: f64::INFINITY, grain: INEXACT, exact: false };
    let fin = |lo: f64, hi: f64, grain: i32, parents_exact: bool| { let ex = parents_exact && fits(lo, hi, grain); Meta { lo, hi, grain: if ex { grain } else { INEXACT }, exact: ex } };
    match t {
        Term::Var(k) => { let (lo, hi, sh) = e.doms[*k as usize]; Meta { lo, hi, grain: sh.max(0), exact: true } }
        Term::Const(b) => const_meta(*b),
        Term::Add(a, b) => { let (x, y) = (g(a), g(b)); fin(x.lo + y.lo, x.hi + y.hi, x.grain.max(y.grain), x.exact && y.exact) }
        Term::Sub(a, b) => { let (x, y) = (g(a), g(b)); fin(x.lo - y.hi, x.hi - y.lo, x.grain.max(y.grain), x.exact && y.exact) }
        Term::Mul(a, b) => { let (x, y) = (g(a), g(b)); let c = [x.lo * y.lo, x.lo * y.hi, x.hi * y.lo, x.hi * y.hi];
            let lo = c.iter().cloned().fold(f64::INFINITY, f64::min); let hi = c.iter().cloned().fold(f64::NEG_INFINITY, f64::max);
            let gr = if x.grain == INEXACT || y.grain == INEXACT { INEXACT } else { x.grain + y.grain };
            fin(lo, hi, gr, x.exact && y.exact) }
        Term::Div(a, b) => { let (x, y) = (g(a), g(b));
            // exact only when dividing by a concrete power of two
            if y.lo == y.hi && y.lo != 0.0 && y.exact { let d = y.lo.abs(); let l2 = d.log2(); if l2.fract() == 0.0 && x.grain != INEXACT {
                let (lo, hi) = if y.lo > 0.0 { (x.lo / y.lo, x.hi / y.lo) } else { (x.hi / y.lo, x.lo / y.lo) };
                return fin(lo, hi, (x.grain + l2 as i32).max(0), x.exact); } }
            bad }
        Term::Neg(a) => { let x = g(a); Meta { lo: -x.hi, hi: -x.lo, ..x } }
        Term::Abs(a) => { let x = g(a); let hi = x.lo.abs().max(x.hi.abs()); let lo = if x.lo <= 0.0 && x.hi >= 0.0 { 0.0 } else { x.lo.abs().min(x.hi.abs()) }; Meta { lo, hi, ..x } }
        Term::Min(a, b) => { let (x, y) = (g(a), g(b)); Meta { lo: x.lo.min(y.lo), hi: x.hi.min(y.hi), grain: if x.exact && y.exact { x.grain.max(y.grain) } else { INEXACT }, exact: x.exact && y.exact } }
        Term::Max(a, b) => { let (x, y) = (g(a), g(b)); Meta { lo: x.lo.max(y.lo), hi: x.hi.max(y.hi), grain: if x.exact && y.exact { x.grain.max(y.grain) } else { INEXACT }, exact: x.exact && y.exact } }
        Term::Floor(a) => { let x = g(a); Meta { lo: x.lo.floor(), hi: x.hi.floor(), grain: if x.exact { 0 } else { INEXACT }, exact: x.exact && fits(x.lo.floor(), x.hi.floor(), 0) } }
        Term::Ceil(a) => { let x = g(a); Meta { lo: x.lo.ceil(), hi: x.hi.ceil(), grain: if x.exact { 0 } else { INEXACT }, exact: x.exact && fits(x.lo.ceil(), x.hi.ceil(), 0) } }
        Term::App(..) => bad,
    }
}
fn mk(t: Term) -> u32 {
    ENGINE.with(|e| {
        let mut e = e.borrow_mut();
        let m = meta_of(&e, &t);
        e.terms.push(t);
        e.meta.push(m);
        (e.terms.len() - 1) as u32
    })
}
fn tid(x: Sx) -> u32 {
    if x.t != 0 {
        x.t
    } else {
        mk(Term::Const(x.v.to_bits()))
    }
}
fn branch(c: Cond, taken: bool) -> bool {
    ENGINE.with(|e| e.borrow_mut().path.push((c, taken)));
    taken
}

pub const TOKEN_PREFIX: &str = "8888";

impl Sx {
    pub const MAX: Sx = lit(P::MAX);
    pub const MIN: Sx = lit(P::MIN);
    pub fn conc(v: P) -> Sx {
        Sx { v, t: 0 }
    }
    pub fn value(self) -> P {
        self.v
    }
    pub fn term(self) -> u32 {
        self.t
    }
    pub fn is_concrete(self) -> bool {
        self.t == 0
    }
    /// fresh symbolic input with concrete shadow value v
    pub fn var(v: P) -> Sx {
        Sx::var_dom(v, -512.0, 512.0, 1)
    }
    /// fresh symbolic input: value = k * 2^-shift with lo <= value <= hi; v is the concrete shadow value
    pub fn var_dom(v: P, lo: f64, hi: f64, shift: i32) -> Sx {
        let k = ENGINE.with(|e| {
            let mut e = e.borrow_mut();
            e.vars.push(v);
            e.doms.push((lo, hi, shift));
            (e.vars.len() - 1) as u32
        });
        Sx { v, t: mk(Term::Var(k)) }
    }
    pub fn token(self) -> String {
        format!("{}{:06}.5", TOKEN_PREFIX, self.t)
    }
    fn from_token(s: &str) -> Option<Sx> {
        let r = s.strip_prefix(TOKEN_PREFIX)?.strip_suffix(".5")?;
        if r.len() != 6 || !r.bytes().all(|b| b.is_ascii_digit()) {
            return None;
        }
        let t: u32 = r.parse().ok()?;
        // concrete shadow value must be re-derivable: evaluate the term under current model
        Some(Sx { v: eval(t), t })
    }
    fn un(self, f: fn(P) -> P, mkterm: fn(u32) -> Term) -> Sx {
        let v = f(self.v);
        if self.t == 0 {
            Sx::conc(v)
        } else {
            Sx { v, t: mk(mkterm(self.t)) }
        }
    }
    fn bin(self, o: Sx, v: P, mkterm: fn(u32, u32) -> Term) -> Sx {
        if self.t == 0 && o.t == 0 {
            Sx::conc(v)
        } else {
            Sx { v, t: mk(mkterm(tid(self), tid(o))) }
        }
    }
    fn app1(self, name: &'static str, v: P) -> Sx {
        if self.t == 0 {
            Sx::conc(v)
        } else {
            Sx { v, t: mk(Term::App(name, vec![self.t])) }
        }
    }
    fn app2(self, o: Sx, name: &'static str, v: P) -> Sx {
        if self.t == 0 && o.t == 0 {
            Sx::conc(v)
        } else {
            Sx { v, t: mk(Term::App(name, vec![tid(self), tid(o)])) }
        }
    }
    pub fn abs(self) -> Sx {
        self.un(P::abs, Term::Abs)
    }
    pub fn floor(self) -> Sx {
        self.un(P::floor, Term::Floor)
    }
    pub fn ceil(self) -> Sx {
        self.un(P::ceil, Term::Ceil)
    }
    pub fn min(self, o: Sx) -> Sx {
        self.bin(o, self.v.min(o.v), Term::Min)
    }
    pub fn max(self, o: Sx) -> Sx {
        self.bin(o, self.v.max(o.v), Term::Max)
    }
    pub fn clamp(self, lo: Sx, hi: Sx) -> Sx {
        self.max(lo).min(hi)
    }
    pub fn fract(self) -> Sx {
        self.app1("fract", self.v.fract())
    }
    pub fn signum(self) -> Sx {
        self.app1("signum", self.v.signum())
    }
    pub fn sqrt(self) -> Sx {
        self.app1("sqrt", self.v.sqrt())
    }
    pub fn ln(self) -> Sx {
        self.app1("ln", self.v.ln())
    }
    pub fn exp(self) -> Sx {
        self.app1("exp", self.v.exp())
    }
    pub fn sin(self) -> Sx {
        self.app1("sin", self.v.sin())
    }
    pub fn cos(self) -> Sx {
        self.app1("cos", self.v.cos())
    }
    pub fn tan(self) -> Sx {
        self.app1("tan", self.v.tan())
    }
    pub fn asin(self) -> Sx {
        self.app1("asin", self.v.asin())
    }
    pub fn acos(self) -> Sx {
        self.app1("acos", self.v.acos())
    }
    pub fn atan(self) -> Sx {
        self.app1("atan", self.v.atan())
    }
    pub fn to_radians(self) -> Sx {
        self.app1("to_radians", self.v.to_radians())
    }
    pub fn to_degrees(self) -> Sx {
        self.app1("to_degrees", self.v.to_degrees())
    }
    pub fn powf(self, o: Sx) -> Sx {
        self.app2(o, "powf", self.v.powf(o.v))
    }
    pub fn atan2(self, o: Sx) -> Sx {
        self.app2(o, "atan2", self.v.atan2(o.v))
    }
    pub fn hypot(self, o: Sx) -> Sx {
        self.app2(o, "hypot", self.v.hypot(o.v))
    }
    pub fn rem_euclid(self, o: Sx) -> Sx {
        self.app2(o, "rem_euclid", self.v.rem_euclid(o.v))
    }
    pub fn div_euclid(self, o: Sx) -> Sx {
        self.app2(o, "div_euclid", self.v.div_euclid(o.v))
    }
    pub fn is_nan(self) -> bool {
        self.v.is_nan()
    }
    pub fn is_finite(self) -> bool {
        self.v.is_finite()
    }
    pub fn total_cmp(&self, o: &Sx) -> Ordering {
        if self.t == 0 && o.t == 0 {
            return self.v.total_cmp(&o.v);
        }
        if *self < *o {
            Ordering::Less
        } else if *self == *o {
            Ordering::Equal
        } else {
            Ordering::Greater
        }
    }
    /// concretise: pins the symbolic value to its current concrete value on this path
    pub fn concretize(self) -> P {
        if self.t != 0 {
            let c = mk(Term::Const(self.v.to_bits()));
            branch(Cond::Eq(self.t, c), true);
            ENGINE.with(|e| e.borrow_mut().concretized += 1);
        }
        self.v
    }
}

pub fn eval(t: u32) -> P {
    ENGINE.with(|e| {
        let e = e.borrow();
        fn go(e: &Engine, t: u32) -> P {
            match &e.terms[t as usize] {
                Term::Var(k) => e.vars[*k as usize],
                Term::Const(b) => P::from_bits(*b),
                Term::Add(a, b) => go(e, *a) + go(e, *b),
                Term::Sub(a, b) => go(e, *a) - go(e, *b),
                Term::Mul(a, b) => go(e, *a) * go(e, *b),
                Term::Div(a, b) => go(e, *a) / go(e, *b),
                Term::Neg(a) => -go(e, *a),
                Term::Abs(a) => go(e, *a).abs(),
                Term::Min(a, b) => go(e, *a).min(go(e, *b)),
                Term::Max(a, b) => go(e, *a).max(go(e, *b)),
                Term::Floor(a) => go(e, *a).floor(),
                Term::Ceil(a) => go(e, *a).ceil(),
                Term::App(..) => P::NAN,
            }
        }
        go(&e, t)
    })
}

impl Default for Sx {
    fn default() -> Self {
        Sx::conc(0.0)
    }
}
impl fmt::Debug for Sx {
    fn fmt(&self, f: &mut fmt::Formatter<'_>) -> fmt::Result {
        if self.t == 0 {
            fmt::Debug::fmt(&self.v, f)
        } else {
            write!(f, "{}", self.token())
        }
    }
}
impl fmt::Display for Sx {
    fn fmt(&self, f: &mut fmt::Formatter<'_>) -> fmt::Result {
        if self.t == 0 {
            fmt::Display::fmt(&self.v, f)
        } else {
            write!(f, "{}", self.token())
        }
    }
}
impl FromStr for Sx {
    type Err = core::num::ParseFloatError;
    fn from_str(s: &str) -> Result<Self, Self::Err> {
        if let Some(x) = Sx::from_token(s) {
            return Ok(x);
        }
        s.parse::<P>().map(Sx::conc)
    }
}
impl PartialEq for Sx {
    fn eq(&self, o: &Sx) -> bool {
        let r = self.v == o.v;
        if self.t == 0 && o.t == 0 {
            r
        } else {
            branch(Cond::Eq(tid(*self), tid(*o)), r)
        }
    }
}
impl PartialOrd for Sx {
    fn partial_cmp(&self, o: &Sx) -> Option<Ordering> {
        if self.t == 0 && o.t == 0 {
            return self.v.partial_cmp(&o.v);
        }
        if self.lt(o) {
            Some(Ordering::Less)
        } else if self.eq(o) {
            Some(Ordering::Equal)
        } else {
            Some(Ordering::Greater)
        }
    }
    fn lt(&self, o: &Sx) -> bool {
        let r = self.v < o.v;
        if self.t == 0 && o.t == 0 { r } else { branch(Cond::Lt(tid(*self), tid(*o)), r) }
    }
    fn le(&self, o: &Sx) -> bool {
        let r = self.v <= o.v;
        if self.t == 0 && o.t == 0 { r } else { branch(Cond::Le(tid(*self), tid(*o)), r) }
    }
    fn gt(&self, o: &Sx) -> bool {
        let r = self.v > o.v;
        if self.t == 0 && o.t == 0 { r } else { branch(Cond::Lt(tid(*o), tid(*self)), r) }
    }
    fn ge(&self, o: &Sx) -> bool {
        let r = self.v >= o.v;
        if self.t == 0 && o.t == 0 { r } else { branch(Cond::Le(tid(*o), tid(*self)), r) }
    }
}
macro_rules! binop {
    ($tr:ident, $m:ident, $tra:ident, $ma:ident, $term:expr, $op:tt) => {
        impl $tr for Sx {
            type Output = Sx;
            fn $m(self, o: Sx) -> Sx { self.bin(o, self.v $op o.v, $term) }
        }
        impl $tr<&Sx> for Sx {
            type Output = Sx;
            fn $m(self, o: &Sx) -> Sx { self.bin(*o, self.v $op o.v, $term) }
        }
        impl $tr<Sx> for &Sx {
            type Output = Sx;
            fn $m(self, o: Sx) -> Sx { (*self).bin(o, self.v $op o.v, $term) }
        }
        impl $tr<&Sx> for &Sx {
            type Output = Sx;
            fn $m(self, o: &Sx) -> Sx { (*self).bin(*o, self.v $op o.v, $term) }
        }
        impl $tra for Sx {
            fn $ma(&mut self, o: Sx) { *self = (*self).bin(o, self.v $op o.v, $term) }
        }
    };
}
binop!(Add, add, AddAssign, add_assign, Term::Add, +);
binop!(Sub, sub, SubAssign, sub_assign, Term::Sub, -);
binop!(Mul, mul, MulAssign, mul_assign, Term::Mul, *);
binop!(Div, div, DivAssign, div_assign, Term::Div, /);
impl Rem for Sx {
    type Output = Sx;
    fn rem(self, o: Sx) -> Sx {
        self.app2(o, "rem", self.v % o.v)
    }
}
impl Neg for Sx {
    type Output = Sx;
    fn neg(self) -> Sx {
        self.un(|x| -x, Term::Neg)
    }
}
impl std::iter::Sum for Sx {
    fn sum<I: Iterator<Item = Sx>>(iter: I) -> Sx {
        iter.fold(Sx::conc(0.0), |a, b| a + b)
    }
}
impl std::iter::Product for Sx {
    fn product<I: Iterator<Item = Sx>>(iter: I) -> Sx {
        iter.fold(Sx::conc(1.0), |a, b| a * b)
    }
}
impl rand::distr::Distribution<Sx> for rand::distr::StandardUniform {
    fn sample<R: rand::Rng + ?Sized>(&self, rng: &mut R) -> Sx {
        Sx::conc(rng.random::<P>())
    }
}

pub trait ToSx {
    fn to_sx(self) -> Sx;
}
macro_rules! tosx { ($($t:ty),*) => { $(impl ToSx for $t { fn to_sx(self) -> Sx { Sx::conc(self as P) } })* } }
tosx!(i8, i16, i32, i64, isize, u8, u16, u32, u64, usize, f64, P);
impl ToSx for Sx {
    fn to_sx(self) -> Sx {
        self
    }
}

pub trait ToPrim: Sized {
    fn to_i8(self) -> i8;
    fn to_i16(self) -> i16;
    fn to_i32(self) -> i32;
    fn to_i64(self) -> i64;
    fn to_isize(self) -> isize;
    fn to_u8(self) -> u8;
    fn to_u16(self) -> u16;
    fn to_u32(self) -> u32;
    fn to_u64(self) -> u64;
    fn to_usize(self) -> usize;
}
macro_rules! toprim {
    ($($t:ty),*) => { $(impl ToPrim for $t {
        fn to_i8(self) -> i8 { self as i8 } fn to_i16(self) -> i16 { self as i16 } fn to_i32(self) -> i32 { self as i32 }
        fn to_i64(self) -> i64 { self as i64 } fn to_isize(self) -> isize { self as isize } fn to_u8(self) -> u8 { self as u8 }
        fn to_u16(self) -> u16 { self as u16 } fn to_u32(self) -> u32 { self as u32 } fn to_u64(self) -> u64 { self as u64 }
        fn to_usize(self) -> usize { self as usize }
    })* };
}
toprim!(i8, i16, i32, i64, i128, isize, u8, u16, u32, u64, u128, usize, f64, P, bool, char);
impl ToPrim for Sx {
    fn to_i8(self) -> i8 { self.concretize() as i8 }
    fn to_i16(self) -> i16 { self.concretize() as i16 }
    fn to_i32(self) -> i32 { self.concretize() as i32 }
    fn to_i64(self) -> i64 { self.concretize() as i64 }
    fn to_isize(self) -> isize { self.concretize() as isize }
    fn to_u8(self) -> u8 { self.concretize() as u8 }
    fn to_u16(self) -> u16 { self.concretize() as u16 }
    fn to_u32(self) -> u32 { self.concretize() as u32 }
    fn to_u64(self) -> u64 { self.concretize() as u64 }
    fn to_usize(self) -> usize { self.concretize() as usize }
}

/// hook for crate::types::fstr on symbolic values
pub fn fstr_sym(x: Sx) -> String {
    x.token()
}

// ---- reporting helpers (prototype) ----
pub fn show(t: u32) -> String {
    ENGINE.with(|e| {
        let e = e.borrow();
        fn go(e: &Engine, t: u32) -> String {
            match &e.terms[t as usize] {
                Term::Var(k) => format!("v{k}"),
                Term::Const(b) => format!("{}", P::from_bits(*b)),
                Term::Add(a, b) => format!("(+ {} {})", go(e, *a), go(e, *b)),
                Term::Sub(a, b) => format!("(- {} {})", go(e, *a), go(e, *b)),
                Term::Mul(a, b) => format!("(* {} {})", go(e, *a), go(e, *b)),
                Term::Div(a, b) => format!("(/ {} {})", go(e, *a), go(e, *b)),
                Term::Neg(a) => format!("(- {})", go(e, *a)),
                Term::Abs(a) => format!("(abs {})", go(e, *a)),
                Term::Min(a, b) => format!("(min {} {})", go(e, *a), go(e, *b)),
                Term::Max(a, b) => format!("(max {} {})", go(e, *a), go(e, *b)),
                Term::Floor(a) => format!("(floor {})", go(e, *a)),
                Term::Ceil(a) => format!("(ceil {})", go(e, *a)),
                Term::App(n, a) => format!("({} {})", n, a.iter().map(|x| go(e, *x)).collect::<Vec<_>>().join(" ")),
            }
        }
        go(&e, t)
    })
}
pub fn show_path() -> Vec<String> {
    let p = ENGINE.with(|e| e.borrow().path.clone());
    p.iter()
        .map(|(c, b)| {
            let s = match c {
                Cond::Lt(a, x) => format!("(< {} {})", show(*a), show(*x)),
                Cond::Le(a, x) => format!("(<= {} {})", show(*a), show(*x)),
                Cond::Eq(a, x) => format!("(= {} {})", show(*a), show(*x)),
            };
            if *b { s } else { format!("(not {s})") }
        })
        .collect()
}

// ---- SMT emission (prototype) ----
pub fn smt_prelude_and_defs() -> String {
    ENGINE.with(|e| {
        let e = e.borrow();
        let mut s = String::new();
        s.push_str("(set-logic ALL)\n(define-fun rmin ((a Real) (b Real)) Real (ite (<= a b) a b))\n(define-fun rmax ((a Real) (b Real)) Real (ite (>= a b) a b))\n(define-fun rabs ((a Real)) Real (ite (>= a 0.0) a (- a)))\n(define-fun rfloor ((a Real)) Real (to_real (to_int a)))\n(define-fun rceil ((a Real)) Real (- (to_real (to_int (- a)))))\n");
        for (k, _) in e.vars.iter().enumerate() {
            s.push_str(&format!("(declare-const v{k} Real)\n"));
        }
        fn c(b: u32) -> String {
            let v = P::from_bits(b) as f64;
            // exact rational of an f32: v = m * 2^e
            if v == 0.0 { return "0.0".into(); }
            let bits = (v as f32).to_bits();
            let sign = if bits >> 31 == 1 { "-" } else { "" };
            let exp = ((bits >> 23) & 0xff) as i32;
            let man = bits & 0x7fffff;
            let (m, e2) = if exp == 0 { (man as u64, -149) } else { ((man | 0x800000) as u64, exp - 150) };
            let r = if e2 >= 0 { format!("{}.0", (m as u128) << e2) } else { format!("(/ {}.0 {}.0)", m, 1u128 << (-e2)) };
            if sign == "-" { format!("(- {r})") } else { r }
        }
        for (i, t) in e.terms.iter().enumerate().skip(1) {
            let d = match t {
                Term::Var(k) => format!("v{k}"),
                Term::Const(b) => c(*b),
                Term::Add(a, b) => format!("(+ t{a} t{b})"),
                Term::Sub(a, b) => format!("(- t{a} t{b})"),
                Term::Mul(a, b) => format!("(* t{a} t{b})"),
                Term::Div(a, b) => format!("(/ t{a} t{b})"),
                Term::Neg(a) => format!("(- t{a})"),
                Term::Abs(a) => format!("(rabs t{a})"),
                Term::Min(a, b) => format!("(rmin t{a} t{b})"),
                Term::Max(a, b) => format!("(rmax t{a} t{b})"),
                Term::Floor(a) => format!("(rfloor t{a})"),
                Term::Ceil(a) => format!("(rceil t{a})"),
                Term::App(..) => format!("u{i}"),
            };
            if let Term::App(..) = t { s.push_str(&format!("(declare-const u{i} Real)\n")); }
            s.push_str(&format!("(define-fun t{i} () Real {d})\n"));
        }
        for (cnd, taken) in &e.path {
            let f = match cnd {
                Cond::Lt(a, b) => format!("(< t{a} t{b})"),
                Cond::Le(a, b) => format!("(<= t{a} t{b})"),
                Cond::Eq(a, b) => format!("(= t{a} t{b})"),
            };
            s.push_str(&format!("(assert {})\n", if *taken { f } else { format!("(not {f})") }));
        }
        s
    })
}

pub fn reset() {
    ENGINE.with(|e| { let mut e = e.borrow_mut(); e.terms.truncate(1); e.meta.truncate(1); e.path.clear(); e.vars.clear(); e.doms.clear(); e.concretized = 0; });
}
/// machine-readable dump of the run: one line per item
pub fn dump() -> String {
    ENGINE.with(|e| {
        let e = e.borrow();
        let mut s = String::new();
        for (k, (lo, hi, sh)) in e.doms.iter().enumerate() { s.push_str(&format!("VAR {k} {lo} {hi} {sh} {}\n", e.vars[k])); }
        for (i, t) in e.terms.iter().enumerate().skip(1) {
            let m = e.meta[i];
            let d = match t {
                Term::Var(k) => format!("var {k}"), Term::Const(b) => format!("const {}", b),
                Term::Add(a, b) => format!("add {a} {b}"), Term::Sub(a, b) => format!("sub {a} {b}"), Term::Mul(a, b) => format!("mul {a} {b}"),
                Term::Div(a, b) => format!("div {a} {b}"), Term::Neg(a) => format!("neg {a}"), Term::Abs(a) => format!("abs {a}"),
                Term::Min(a, b) => format!("min {a} {b}"), Term::Max(a, b) => format!("max {a} {b}"), Term::Floor(a) => format!("floor {a}"),
                Term::Ceil(a) => format!("ceil {a}"), Term::App(n, a) => format!("app {n} {}", a.iter().map(|x| x.to_string()).collect::<Vec<_>>().join(" ")),
            };
            s.push_str(&format!("TERM {i} {} {d}\n", if m.exact { "E" } else { "I" }));
        }
        for (c, taken) in &e.path {
            let (op, a, b) = match c { Cond::Lt(a, b) => ("lt", a, b), Cond::Le(a, b) => ("le", a, b), Cond::Eq(a, b) => ("eq", a, b) };
            s.push_str(&format!("PATH {} {op} {a} {b}\n", if *taken { 1 } else { 0 }));
        }
        s.push_str(&format!("CONCRETIZED {}\n", e.concretized));
        s
    })
}
