import sys; sys.path.insert(0, "/tmp/probe2")
from sx_proto import *
import explore1
from explore1 import shape_bbox_terms, shapes
R = Runner()
def mkz3(cmd): 
    z = Z3(cmd); z.p.stdin.write(PRELUDE); return z
A = '<rect id="a" xy="{v0} {v1}" wh="{v2} {v3}"/>'; B = '<circle id="b" cxy="{v4} {v5}" r="{v6}"/>'
ua = ("v0", "v1", "(+ v0 v2)", "(+ v1 v3)"); ub = ("(- v4 v6)", "(- v5 v6)", "(+ v4 v6)", "(+ v5 v6)")
U = (f"(rmin {ua[0]} {ub[0]})", f"(rmin {ua[1]} {ub[1]})", f"(rmax {ua[2]} {ub[2]})", f"(rmax {ua[3]} {ub[3]})")
base = [(3.0,-256,256,1),(4.0,-256,256,1),(20.0,0,128,1),(10.0,0,128,1),(40.0,-256,256,1),(-7.0,-256,256,1),(6.0,0,64,1),(1.0,0,16,1)]
for solver in (("z3","-in","-t:20000"), ("cvc5","--lang","smt2","--incremental","--tlimit-per","20000")):
  for cont in ("circle", "ellipse"):
    for form in ("quadratic", "sufficient-linear"):
        Z = mkz3(solver)
        doc = "<svg>" + A + B + f'<{cont} id="s" surround="#a #b" margin="{{v7}}"/></svg>'
        G = (f"(- {U[0]} v7)", f"(- {U[1]} v7)", f"(+ {U[2]} v7)", f"(+ {U[3]} v7)")
        r = R.run(doc, base)
        sh = [e for e in shapes(r["output"]) if e.get("id") == "s"]; b = shape_bbox_terms(sh[0])
        rx = f"(/ (- {b[2]} {b[0]}) 2.0)"; ry = f"(/ (- {b[3]} {b[1]}) 2.0)"
        hw = f"(/ (- {G[2]} {G[0]}) 2.0)"; hh = f"(/ (- {G[3]} {G[1]}) 2.0)"
        if form == "quadratic":
            if cont == "circle": prop = f"(<= (+ (* {hw} {hw}) (* {hh} {hh})) (* 1.001 (* {rx} {rx})))"
            else: prop = f"(exists ((p Real) (q Real)) (and (= (* p {rx}) {hw}) (= (* q {ry}) {hh}) (<= (+ (* p p) (* q q)) 1.001)))"
        else:
            c = "0.70710678"
            prop = f"(and (>= (* 1.0005 {rx}) (* {c} (rmax {hw} {hh}) 2.0 0.5)) (>= (* 1.0005 {ry}) (* {c} (rmax {hw} {hh}))))" if cont == "circle" else f"(and (>= (* 1.0005 {rx}) (* {c} 2.0 0.5 {hw} 2.0 0.5)) (>= (* 1.0005 {ry}) (* {c} {hh})))"
            prop = prop.replace("(* %s (rmax %s %s) 2.0 0.5)" % (c, hw, hh), "(* %s (rmax %s %s))" % (c, hw, hh)).replace("(* %s 2.0 0.5 %s 2.0 0.5)" % (c, hw), "(* %s %s)" % (c, hw))
        q = defs(r, real=True) + "".join(f"(assert {cond_smt(c)})\n" for c in r["path"]) + f"(assert (not {prop}))\n"
        t0 = time.time(); ans, _ = Z.ask(q); 
        print(solver[0], cont, form, ans, "%.2fs" % (time.time() - t0), "inexact terms:", sum(1 for t in r["terms"].values() if t[0] == "I"))
        Z.p.kill()
