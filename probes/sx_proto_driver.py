#!/usr/bin/env python3
"""PROTOTYPE driver: concolic path exploration of the rewritten svgdx + z3 verdicts.
Design-phase probe only (DESIGN.md P16)."""
import subprocess, struct, sys, time, re
from fractions import Fraction
import xml.etree.ElementTree as ET

SXRUN = "/tmp/probe2/sx/target/debug/examples/sxrun"
TOK = re.compile(r"8888(\d{6})\.5")

class Runner:
    def __init__(self):
        self.p = subprocess.Popen([SXRUN], stdin=subprocess.PIPE, stdout=subprocess.PIPE)
    def run(self, doc, vars_):
        d = doc.encode()
        msg = f"RUN {len(vars_)} {len(d)}\n".encode()
        for (val, lo, hi, sh) in vars_:
            msg += f"{val} {lo} {hi} {sh}\n".encode()
        self.p.stdin.write(msg + d); self.p.stdin.flush()
        r = {"terms": {}, "path": [], "vars": [], "output": None}
        assert self.p.stdout.readline().strip() == b"BEGIN"
        while True:
            line = self.p.stdout.readline().decode().rstrip("\n")
            if line == "END": break
            if line.startswith("STATUS "): r["status"] = line[7:]
            elif line.startswith("OUTPUT "):
                n = int(line.split()[1]); r["output"] = self.p.stdout.read(n).decode(); self.p.stdout.readline()
            elif line.startswith("VAR "):
                _, k, lo, hi, sh, v = line.split(); r["vars"].append((float(lo), float(hi), int(sh), float(v)))
            elif line.startswith("TERM "):
                f = line.split(); r["terms"][int(f[1])] = (f[2], f[3], f[4:])
            elif line.startswith("PATH "):
                f = line.split(); r["path"].append((f[1] == "1", f[2], int(f[3]), int(f[4])))
            elif line.startswith("CONCRETIZED "): r["concretized"] = int(line.split()[1])
        return r

class Z3:
    def __init__(self, cmd=("z3", "-in")):
        self.p = subprocess.Popen(list(cmd), stdin=subprocess.PIPE, stdout=subprocess.PIPE, text=True)
        self.t = 0.0; self.n = 0
    def ask(self, smt, want_model=None):
        t0 = time.time()
        q = "(push)\n" + smt + "\n(check-sat)\n"
        self.p.stdin.write(q); self.p.stdin.flush()
        ans = self.p.stdout.readline().strip()
        model = None
        if ans == "sat" and want_model:
            self.p.stdin.write("(get-value (%s))\n" % " ".join(want_model)); self.p.stdin.flush()
            txt = ""
            depth = 0
            while True:
                l = self.p.stdout.readline(); txt += l
                depth += l.count("(") - l.count(")")
                if depth <= 0 and txt.strip(): break
            model = {m.group(1): int(m.group(2).replace("(- ", "-").replace(")", "").replace(" ", "")) for m in re.finditer(r"\((k\d+) ((?:\(- )?\d+\)?)\)", txt)}
        self.p.stdin.write("(pop)\n"); self.p.stdin.flush()
        self.t += time.time() - t0; self.n += 1
        return ans, model

def const_smt(bits):
    v = struct.unpack(">f", struct.pack(">I", bits))[0]
    fr = Fraction(v)
    s = f"(/ {abs(fr.numerator)}.0 {fr.denominator}.0)"
    return f"(- {s})" if fr < 0 else s

PRELUDE = """(define-fun rmin ((a Real) (b Real)) Real (ite (<= a b) a b))
(define-fun rmax ((a Real) (b Real)) Real (ite (>= a b) a b))
(define-fun rabs ((a Real)) Real (ite (>= a 0.0) a (- a)))
(define-fun rfloor ((a Real)) Real (to_real (to_int a)))
(define-fun rceil ((a Real)) Real (- (to_real (to_int (- a)))))
"""

def num(x):
    fr = Fraction(x)
    t = f"(/ {abs(fr.numerator)}.0 {fr.denominator}.0)"
    return f"(- {t})" if fr < 0 else t

def defs(r, real=False):
    """SMT definitions for vars (Int grid, or plain Real ranges) and the term DAG of run r"""
    s = ""
    for k, (lo, hi, sh, _v) in enumerate(r["vars"]):
        sc = 2 ** sh
        if real:
            s += f"(declare-const v{k} Real)\n(assert (and (>= v{k} {num(lo)}) (<= v{k} {num(hi)})))\n"
        else:
            ilo, ihi = int(lo * sc), int(hi * sc)
            f = lambda n: f"(- {abs(n)})" if n < 0 else str(n)
            s += f"(declare-const k{k} Int)\n(assert (and (>= k{k} {f(ilo)}) (<= k{k} {f(ihi)})))\n(define-fun v{k} () Real (/ (to_real k{k}) {sc}.0))\n"
    for i in sorted(r["terms"]):
        ex, op, a = r["terms"][i]
        t = lambda x: f"t{x}"
        if op == "var": d = f"v{a[0]}"
        elif op == "const": d = const_smt(int(a[0]))
        elif op in ("add", "sub", "mul", "div"): d = "(%s %s %s)" % ({"add": "+", "sub": "-", "mul": "*", "div": "/"}[op], t(a[0]), t(a[1]))
        elif op == "neg": d = f"(- {t(a[0])})"
        elif op in ("abs", "floor", "ceil"): d = f"(r{op} {t(a[0])})"
        elif op in ("min", "max"): d = f"(r{op} {t(a[0])} {t(a[1])})"
        else:
            s += f"(declare-const u{i} Real)\n"; d = f"u{i}"
        s += f"(define-fun t{i} () Real {d})\n"
    return s

def cond_smt(c):
    taken, op, a, b = c
    f = "(%s t%d t%d)" % ({"lt": "<", "le": "<=", "eq": "="}[op], a, b)
    return f if taken else f"(not {f})"

def path_key(r):
    # structural key of a path: sequence of (taken, op, structural hash of both sides)
    memo = {}
    def h(i):
        if i not in memo:
            ex, op, a = r["terms"][i]
            memo[i] = (op,) + tuple(a if op in ("var", "const", "app") else [h(int(x)) for x in a])
        return memo[i]
    return tuple((tk, op, h(a), h(b)) for (tk, op, a, b) in r["path"]) + (r["status"].split()[0],)

def explore(runner, z3, doc, vars0, check, cap=64, real=False):
    """generational search; check(r) -> list of (name, smt_negated_property) to be unsat under path"""
    work = [vars0]; seen = {}; stats = dict(runs=0, paths=0, queries=0, violations=[], inexact_branches=0, exhaustive=True)
    tried_prefix = set()
    while work:
        if stats["paths"] >= cap: stats["exhaustive"] = False; break
        vs = work.pop()
        r = runner.run(doc, vs); stats["runs"] += 1
        key = path_key(r)
        if key in seen: continue
        seen[key] = r; stats["paths"] += 1
        d = defs(r, False); dprop = defs(r, real)
        pc = [cond_smt(c) for c in r["path"]]
        for (tk, op, a, b) in r["path"]:
            if r["terms"][a][0] == "I" or r["terms"][b][0] == "I": stats["inexact_branches"] += 1
        # property on this path
        for name, negprop in check(r):
            ans, model = z3.ask(dprop + "".join(f"(assert {c})\n" for c in pc) + f"(assert {negprop})\n", None if real else [f"k{k}" for k in range(len(vs))])
            stats["queries"] += 1
            if ans != "unsat": stats["violations"].append((name, ans, model, r["status"]))
        # negate each branch
        for i in range(len(pc)):
            pk = path_key({**r, "path": r["path"][:i + 1]})[:-1]
            flipped = pk[:-1] + ((not pk[-1][0],) + pk[-1][1:],)
            if flipped in tried_prefix: continue
            tried_prefix.add(flipped)
            neg = cond_smt((not r["path"][i][0],) + tuple(r["path"][i][1:]))
            ans, model = z3.ask(d + "".join(f"(assert {c})\n" for c in pc[:i]) + f"(assert {neg})\n", [f"k{k}" for k in range(len(vs))])
            stats["queries"] += 1
            if ans == "sat":
                work.append([(model[f"k{k}"] / 2 ** vs[k][3], vs[k][1], vs[k][2], vs[k][3]) for k in range(len(vs))])
            elif ans != "unsat": stats["exhaustive"] = False
    return stats, seen

def attr_term(out, elem_idx, attr):
    root = ET.fromstring(out)
    els = [e for e in root.iter() if e.tag.split('}')[-1] in ("rect", "circle", "line", "text")]
    m = TOK.fullmatch(els[elem_idx].get(attr, ""))
    return int(m.group(1)) if m else None

if __name__ == "__main__":
    R = Runner(); Z = Z3(); Z.p.stdin.write(PRELUDE)
    # --- template 1 (C09): P placed at R's top edge with absolute offset o (either sign), R of symbolic width
    doc1 = '<svg><rect id="r" xy="{v0} {v1}" wh="{v2} 10"/><rect xy="#r@t:{v3}" wh="2"/></svg>'
    v1 = [(3.0, -512, 512, 1), (4.0, -512, 512, 1), (20.0, 0, 256, 1), (2.0, -256, 256, 1)]
    def check1(r):
        if not r["status"].startswith("ok"): return [("status", "true")]
        x = attr_term(r["output"], 1, "x"); y = attr_term(r["output"], 1, "y")
        oracle_x = "(ite (>= v3 0.0) (+ v0 v3) (+ (+ v0 v2) v3))"
        return [("x", f"(not (= t{x} {oracle_x}))"), ("y", f"(not (= t{y} v1))")]
    st, seen = explore(R, Z, doc1, v1, check1)
    print("C09-edge-offset:", {k: v for k, v in st.items()}, "z3 time %.2fs over %d queries" % (Z.t, Z.n))
    # sensitivity twin: wrong oracle (offset measured from start for negative too) must be refuted
    def check1_wrong(r):
        x = attr_term(r["output"], 1, "x"); return [("x-wrong", f"(not (= t{x} (+ v0 v3)))")]
    st, _ = explore(R, Z, doc1, v1, check1_wrong)
    print("  sensitivity twin refuted:", [(n, a, m) for (n, a, m, s) in st["violations"]][:1])
    # --- template 2 (C17): while loop bounded by symbolic N, loop-limit 2: Ok iff trips <= 2 with exactly N bodies
    doc2 = '<svg><config loop-limit="2"/><var i="0"/><loop while="lt($i, {v0})"><rect xy="{{$i * 3}} 0" wh="2"/><var i="{{$i + 1}}"/></loop></svg>'
    v2 = [(1.0, -4, 8, 0)]
    def check2(r):
        trips = sum(1 for c in r["path"] if c[0])  # number of times the loop condition held
        ok = r["status"].startswith("ok")
        bodies = r["output"].count("<rect") if ok else None
        good = (ok and bodies == trips) if trips <= 2 else (not ok)
        return [(f"trips={trips} status={r['status'][:30]} bodies={bodies}", "false" if good else "true")]
    Z.t = 0; Z.n = 0
    st, seen = explore(R, Z, doc2, v2, check2)
    print("C17-while-limit:", {k: v for k, v in st.items() if k != "violations"}, "z3 time %.2fs over %d queries" % (Z.t, Z.n))
    for v in st["violations"]: print("  VIOLATION", v)
