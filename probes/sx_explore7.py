import sys, itertools, random; sys.path.insert(0, "/tmp/probe2")
from sx_proto import *
import explore1
R = Runner(); Z = Z3(("z3","-in","-t:20000")); Z.p.stdin.write(PRELUDE)
def tokterm(v):
    m = TOK.fullmatch(v)
    return f"t{int(m.group(1))}" if m else num(v)
A = ("v0","v1","(+ v0 v2)","(+ v1 v3)"); B = ("v4","v5","(+ v4 v6)","(+ v5 v7)")
def mids(b):
    cx = f"(/ (+ {b[0]} {b[2]}) 2.0)"; cy = f"(/ (+ {b[1]} {b[3]}) 2.0)"
    return {"t": (cx, b[1]), "r": (b[2], cy), "b": (cx, b[3]), "l": (b[0], cy)}
d2 = lambda p, q: f"(+ (* (- {p[0]} {q[0]}) (- {p[0]} {q[0]})) (* (- {p[1]} {q[1]}) (- {p[1]} {q[1]})))"
doc = '<svg><rect id="a" xy="{v0} {v1}" wh="{v2} {v3}"/><rect id="b" xy="{v4} {v5}" wh="{v6} {v7}"/><polyline start="#a" end="#b"/></svg>'
random.seed(0)
arr = []
for (bx, by) in [(40,30),(40,-30),(-40,30),(-40,-30),(40,2),(-40,2),(2,40),(2,-40),(5,3)]:
    arr.append([(3.0,-64,64,1),(4.0,-64,64,1),(20.0,1,32,0),(10.0,1,32,0),(float(bx),-64,64,1),(float(by),-64,64,1),(6.0,1,32,0),(8.0,1,32,0)])
seenpaths = {}
for vs in arr:
    r = R.run(doc, vs); key = path_key(r)
    if key in seenpaths: continue
    seenpaths[key] = r
    root = ET.fromstring(r["output"]); 
    pl = [e for e in root.iter() if e.tag.split('}')[-1] in ("polyline", "line")][-1]
    if pl.tag.endswith("polyline"):
        pts = [p.split() for p in pl.get("points").split(",")]; pts = [(tokterm(a), tokterm(b)) for a, b in pts]
    else:
        pts = [(tokterm(pl.get("x1")), tokterm(pl.get("y1"))), (tokterm(pl.get("x2")), tokterm(pl.get("y2")))]
    ma, mb = mids(A), mids(B)
    allpairs = [(ma[i], mb[j]) for i in "trbl" for j in "trbl"]
    cases = []
    for i in "trbl":
        for j in "trbl":
            first = f"(= {pts[0][1]} {pts[1][1]})" if i in "lr" else f"(= {pts[0][0]} {pts[1][0]})"
            last = f"(= {pts[-1][1]} {pts[-2][1]})" if j in "lr" else f"(= {pts[-1][0]} {pts[-2][0]})"
            minimal = " ".join(f"(<= {d2(ma[i], mb[j])} {d2(p, q)})" for p, q in allpairs)
            cases.append(f"(and (= {pts[0][0]} {ma[i][0]}) (= {pts[0][1]} {ma[i][1]}) (= {pts[-1][0]} {mb[j][0]}) (= {pts[-1][1]} {mb[j][1]}) {first} {last} {minimal})")
    rect = " ".join(f"(or (= {pts[k][0]} {pts[k+1][0]}) (= {pts[k][1]} {pts[k+1][1]}))" for k in range(len(pts) - 1))
    prop = f"(and (or {' '.join(cases)}) {rect})"
    q = defs(r, real=True) + "".join(f"(assert {cond_smt(c)})\n" for c in r["path"]) + f"(assert (not {prop}))\n"
    t0 = time.time(); ans, _ = Z.ask(q)
    print("B at", vs[4][0], vs[5][0], "| points", len(pts), "| path conds", len(r["path"]), "|", ans, "%.2fs" % (time.time() - t0))
