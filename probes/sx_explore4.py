import sys; sys.path.insert(0, "/tmp/probe2")
from sx_proto import *
import explore1
from explore1 import shape_bbox_terms, shapes
R = Runner(); Z = Z3(("z3","-in","-t:20000")); Z.p.stdin.write(PRELUDE)
def tokterm(v):
    m = TOK.fullmatch(v)
    if m: return f"t{int(m.group(1))}"
    return num(v)
docs = {
 "two rects + circle": '<svg><rect xy="{v0} {v1}" wh="{v2} {v3}"/><circle cxy="{v4} {v5}" r="{v6}"/><rect xy="^|h {v7}" wh="3 4"/></svg>',
 "line + ellipse": '<svg><line xy1="{v0} {v1}" xy2="{v2} {v3}"/><ellipse cxy="{v4} {v5}" rxy="{v6} 3"/></svg>',
 "group translate": '<svg><g transform="translate({v0} {v1})"><rect xy="{v2} {v3}" wh="{v6} 4"/></g><rect xy="{v4} {v5}" wh="2"/></svg>',
 "shape text + point + box": '<svg><rect xy="{v0} {v1}" wh="{v2} {v3}" text="hi" text-loc="t"/><point xy="{v4} {v5}"/><box xy="{v7} 0" wh="{v6} 2"/></svg>',
}
base = [(3.0,-256,256,1),(4.5,-256,256,1),(20.0,0,128,1),(10.5,0,128,1),(40.0,-256,256,1),(-7.0,-256,256,1),(6.0,0,64,1),(1.5,-16,16,1)]
for name, doc in docs.items():
    def check(r, name=name):
        if not r["status"].startswith("ok"): return [("status " + r["status"][:80], "true")]
        root = ET.fromstring(r["output"])
        vb = root.get("viewBox").split(); w = root.get("width"); h = root.get("height")
        bbs = []
        def walk(el, tx="0.0", ty="0.0"):
            for e in el:
                tag = e.tag.split('}')[-1]
                if tag in ("rect", "circle", "ellipse", "line"):
                    b = shape_bbox_terms(e); bbs.append((f"(+ {b[0]} {tx})", f"(+ {b[1]} {ty})", f"(+ {b[2]} {tx})", f"(+ {b[3]} {ty})"))
                elif tag == "g":
                    m = re.fullmatch(r"translate\((\S+),? (\S+)\)", e.get("transform", "translate(0, 0)"))
                    walk(e, f"(+ {tx} {tokterm(m.group(1))})", f"(+ {ty} {tokterm(m.group(2))})")
        walk(root)
        if name.startswith("shape text"):  # invisible box contributes: x=v7,y=0,w=v6,h=2
            bbs.append(("v7", "0.0", "(+ v7 v6)", "2.0"))
        import functools
        mn = lambda xs: functools.reduce(lambda a, b: f"(rmin {a} {b})", xs); mx = lambda xs: functools.reduce(lambda a, b: f"(rmax {a} {b})", xs)
        E = (f"(rfloor (- {mn([b[0] for b in bbs])} 5.0))", f"(rfloor (- {mn([b[1] for b in bbs])} 5.0))", f"(rceil (+ {mx([b[2] for b in bbs])} 5.0))", f"(rceil (+ {mx([b[3] for b in bbs])} 5.0))")
        q = [("vb.x", f"(not (= {tokterm(vb[0])} {E[0]}))"), ("vb.y", f"(not (= {tokterm(vb[1])} {E[1]}))"),
             ("vb.w", f"(not (= {tokterm(vb[2])} (- {E[2]} {E[0]})))"), ("vb.h", f"(not (= {tokterm(vb[3])} (- {E[3]} {E[1]})))"),
             ("width", f"(not (= {tokterm(w[:-2])} (- {E[2]} {E[0]})))"), ("height", f"(not (= {tokterm(h[:-2])} (- {E[3]} {E[1]})))")]
        return q
    t0 = time.time()
    st, seen = explore(R, Z, doc, list(base), check, cap=16)
    print(name, "| paths", st["paths"], "exh", st["exhaustive"], "queries", st["queries"], "%.1fs" % (time.time()-t0), [(n, a, m) for (n, a, m, s) in st["violations"]][:4] or "OK")
