import sys; sys.path.insert(0, "/tmp/probe2")
from sx_proto import *
from explore1 import shape_bbox_terms, shapes
import itertools
R = Runner(); Z = Z3(); Z.p.stdin.write(PRELUDE)
# C11: per-axis sufficient pairs. box x in [v0, v0+v2], y in [v1, v1+v3]
# attribute names per shape for start/end/centre/length on x and y
def axis_attrs(shape, ax):
    X = ax == "x"
    if shape in ("rect", "ellipse", "circle"):
        return {"s": "x" if X else "y", "e": "x2" if X else "y2", "m": "cx" if X else "cy", "l": "width" if X else "height"}
    if shape == "line":
        return {"s": "x1" if X else "y1", "e": "x2" if X else "y2", "m": "cx" if X else "cy", "l": "width" if X else "height"}
# values as placeholders with precomputed derived variables: we pass s, l as vars and spell e, m as expressions {{..}}
def spell(kind, ax):
    s, l = ("{v0}", "{v2}") if ax == "x" else ("{v1}", "{v3}")
    return {"s": s, "l": l, "e": "{{%s + %s}}" % (s, l), "m": "{{%s + %s / 2}}" % (s, l)}[kind]
pairs = [("s","e"),("s","m"),("e","m"),("s","l"),("e","l"),("m","l")]
base = [(3.0, -512, 512, 1), (-4.5, -512, 512, 1), (20.0, 0, 256, 0), (10.0, 0, 256, 0)]  # sizes: integers so /2 stays on grid
tot = bad = 0
for shape in ("rect", "ellipse", "line", "circle"):
    for px in pairs:
        for py in pairs:
            attrs = {}
            ax = axis_attrs(shape, "x"); ay = axis_attrs(shape, "y")
            for k in px: attrs[ax[k]] = spell(k, "x")
            for k in py: attrs[ay[k]] = spell(k, "y")
            doc = "<svg><%s %s/></svg>" % (shape, " ".join(f'{k}="{v}"' for k, v in attrs.items()))
            vs = list(base)
            if shape == "circle": 
                # circle: height := width (use v2 for both)
                doc = doc.replace("{v3}", "{v2}"); 
            def check(r, shape=shape):
                if not r["status"].startswith("ok"): return [("status " + r["status"][:80], "true")]
                sh = shapes(r["output"])
                if not sh: return [("no shape", "true")]
                try: b = shape_bbox_terms(sh[0])
                except Exception as e: return [("bbox " + str(e), "true")]
                hh = "v2" if shape == "circle" else "v3"
                q = [("x1", f"(not (= {b[0]} v0))"), ("y1", f"(not (= {b[1]} v1))"), ("x2", f"(not (= {b[2]} (+ v0 v2)))"), ("y2", f"(not (= {b[3]} (+ v1 {hh})))")]
                native = {"rect": {"x","y","width","height"}, "circle": {"cx","cy","r"}, "ellipse": {"cx","cy","rx","ry"}, "line": {"x1","y1","x2","y2"}}[shape]
                extra = set(sh[0].attrib) - native
                if extra: q.append(("leftover attrs %s" % sorted(extra), "true"))
                return q
            st, seen = explore(R, Z, doc, vs, check, cap=16)
            tot += 1
            if st["violations"] or not st["exhaustive"] or st["inexact_branches"]:
                bad += 1
                print(shape, px, py, "paths", st["paths"], "inexact", st["inexact_branches"], [(n, a) for (n, a, m, s) in st["violations"]][:4])
print("templates", tot, "flagged", bad, "z3 queries", Z.n, "z3 time %.1fs" % Z.t)
