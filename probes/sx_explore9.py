import sys, itertools; sys.path.insert(0, "/tmp/probe2")
from sx_proto import *
import explore1
from explore1 import shape_bbox_terms, shapes
R = Runner(); Z = Z3(("z3","-in","-t:20000")); Z.p.stdin.write(PRELUDE)
def pdefs(r, pre, with_vars):
    d = defs(r)
    if not with_vars: d = "\n".join(l for l in d.split("\n") if not re.match(r"\((declare-const k|assert \(and \(>= k|define-fun v)", l))
    return re.sub(r"\bt(\d+)\b", pre + r"\1", d)
def pcond(c, pre): return re.sub(r"\bt(\d+)\b", pre + r"\1", cond_smt(c))
def compare(name, docA, docB, vs):
    ra, rb = R.run(docA, vs), R.run(docB, vs)
    if ra["status"].split()[0] != rb["status"].split()[0]: print(name, "STATUS DIFF", ra["status"][:60], "|", rb["status"][:60]); return
    if not ra["status"].startswith("ok"): print(name, "both", ra["status"][:40]); return
    sa, sb = shapes(ra["output"]), shapes(rb["output"])
    if [e.tag for e in sa] != [e.tag for e in sb]: print(name, "STRUCTURE DIFF", len(sa), len(sb)); return
    q = pdefs(ra, "a", True) + pdefs(rb, "b", False) + "".join(f"(assert {pcond(c,'a')})\n" for c in ra["path"]) + "".join(f"(assert {pcond(c,'b')})\n" for c in rb["path"])
    diffs = []
    for ea, eb in zip(sa, sb):
        ba = [re.sub(r"\bt(\d+)\b", r"a\1", x) for x in shape_bbox_terms(ea)]; bb = [re.sub(r"\bt(\d+)\b", r"b\1", x) for x in shape_bbox_terms(eb)]
        diffs += [f"(not (= {x} {y}))" for x, y in zip(ba, bb)]
    ans, m = Z.ask(q + f"(assert (or {' '.join(diffs)}))\n", [f"k{k}" for k in range(len(vs))])
    print(name, "| elements", len(sa), "| paths", len(ra["path"]), len(rb["path"]), "|", "EQUAL for all values" if ans == "unsat" else (ans, m))
vs = [(3.0,-256,256,1),(1.5,-16,16,1),(2.0,0,32,1),(5.0,0,32,1)]
# C16: count loop with symbolic start/step, body uses loop var and ^ relative positioning
compare("loop count=3 start/step",
  '<svg><loop count="3" loop-var="i" start="{v0}" step="{v1}"><rect xy="{{$i}} 0" wh="{v2} 2"/><circle xy="^|v {v3}" r="1"/></loop></svg>',
  '<svg><rect xy="{v0} 0" wh="{v2} 2"/><circle xy="^|v {v3}" r="1"/><rect xy="{{{v0} + {v1}}} 0" wh="{v2} 2"/><circle xy="^|v {v3}" r="1"/><rect xy="{{{v0} + {v1} + {v1}}} 0" wh="{v2} 2"/><circle xy="^|v {v3}" r="1"/></svg>', vs)
compare("loop with ^|h chain across iterations",
  '<svg><rect xy="{v0} 0" wh="{v2} 2"/><loop count="2"><rect xy="^|h {v1}" wh="{v3} 2"/></loop></svg>',
  '<svg><rect xy="{v0} 0" wh="{v2} 2"/><rect xy="^|h {v1}" wh="{v3} 2"/><rect xy="^|h {v1}" wh="{v3} 2"/></svg>', vs)
compare("for over list",
  '<svg><rect wh="1"/><for var="w" data="{v2}, {v3}"><rect xy="^|v {v1}" wh="$w 2"/></for></svg>',
  '<svg><rect wh="1"/><rect xy="^|v {v1}" wh="{v2} 2"/><rect xy="^|v {v1}" wh="{v3} 2"/></svg>', vs)
compare("if true/false by symbolic test",
  '<svg><rect xy="0" wh="{v2} 2"/><if test="gt({v0}, {v1})"><rect xy="^|h" wh="{v3} 2"/></if></svg>',
  '<svg><rect xy="0" wh="{v2} 2"/><rect xy="^|h" wh="{v3} 2"/></svg>', vs)
# C18: reuse of a shape template vs inlined
compare("reuse single shape",
  '<svg><specs><rect id="t" wh="$w {v3}"/></specs><reuse href="#t" x="{v0}" y="{v1}" w="{v2}"/></svg>',
  '<svg><rect x="{v0}" y="{v1}" wh="{v2} {v3}"/></svg>', vs)
compare("reuse group",
  '<svg><specs><g id="t"><rect xy="0" wh="$w {v3}"/><circle xy="^|h 1" r="1"/></g></specs><reuse href="#t" x="{v0}" y="{v1}" w="{v2}"/></svg>',
  '<svg><g transform="translate({v0}, {v1})"><rect xy="0" wh="{v2} {v3}"/><circle xy="^|h 1" r="1"/></g></svg>', vs)
