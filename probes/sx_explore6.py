import sys, itertools; sys.path.insert(0, "/tmp/probe2")
from sx_proto import *
import explore1
R = Runner(); Z = Z3(("z3","-in","-t:20000")); Z.p.stdin.write(PRELUDE)
def tokterm(v):
    m = TOK.fullmatch(v)
    return f"t{int(m.group(1))}" if m else num(v)
base = [(3.0,-256,256,1),(4.0,-256,256,1),(20.0,0,128,0),(10.0,0,128,0),(1.5,0,16,1),(0.5,-16,16,1),(-2.0,-16,16,1)]
LOC = {"tl": (0,0), "t": (1,0), "tr": (2,0), "r": (2,1), "br": (2,2), "b": (1,2), "bl": (0,2), "l": (0,1), "c": (1,1)}
shapes_ = {
 "rect": ('<rect xy="{v0} {v1}" wh="{v2} {v3}" %s/>', ("v0","v1","(+ v0 v2)","(+ v1 v3)"), False),
 "circle": ('<circle cxy="{v0} {v1}" r="{v2}" %s/>', ("(- v0 v2)","(- v1 v2)","(+ v0 v2)","(+ v1 v2)"), False),
 "line": ('<line xy1="{v0} {v1}" xy2="{v2} {v3}" %s/>', ("(rmin v0 v2)","(rmin v1 v3)","(rmax v0 v2)","(rmax v1 v3)"), True),
}
tot = bad = 0
for sk, (tmpl, bb, outside_default) in shapes_.items():
  for cls in ("", "d-text-outside", "d-text-inside"):
    for loc, (ix, iy) in LOC.items():
        attrs = f'text="hello" text-loc="{loc}" text-offset="{{v4}}" text-dx="{{v5}}" text-dy="{{v6}}"' + (f' class="{cls}"' if cls else "")
        doc = "<svg>" + (tmpl % attrs) + "</svg>"
        vs = list(base)
        if sk == "line": vs[2] = (20.0,-256,256,0); vs[3] = (10.0,-256,256,0)
        outside = outside_default if not cls else (cls == "d-text-outside")
        xs = [bb[0], f"(/ (+ {bb[0]} {bb[2]}) 2.0)", bb[2]]; ys = [bb[1], f"(/ (+ {bb[1]} {bb[3]}) 2.0)", bb[3]]
        sgn = -1 if outside else 1
        offx = {0: "v4", 1: "0.0", 2: "(- v4)"}[ix]; offy = {0: "v4", 1: "0.0", 2: "(- v4)"}[iy]
        if outside: offx = f"(- {offx})"; offy = f"(- {offy})"
        ex = f"(+ (+ {xs[ix]} {offx}) v5)"; ey = f"(+ (+ {ys[iy]} {offy}) v6)"
        want_cls = {"d-text"}
        v = {0: "top", 2: "bottom"}.get(iy); h = {0: "left", 2: "right"}.get(ix)
        flip = {"top": "bottom", "bottom": "top", "left": "right", "right": "left"}
        if v: want_cls.add("d-text-" + (flip[v] if outside else v))
        if h: want_cls.add("d-text-" + (flip[h] if outside else h))
        def check(r, ex=ex, ey=ey, want_cls=want_cls):
            if not r["status"].startswith("ok"): return [("status " + r["status"][:100], "true")]
            root = ET.fromstring(r["output"]); t = [e for e in root.iter() if e.tag.split('}')[-1] == "text"][0]
            q = [("x", f"(not (= {tokterm(t.get('x'))} {ex}))"), ("y", f"(not (= {tokterm(t.get('y'))} {ey}))")]
            got = set(t.get("class", "").split())
            if got != want_cls: q.append((f"classes got {sorted(got)} want {sorted(want_cls)}", "true"))
            if "".join(t.itertext()) != "hello": q.append(("text content", "true"))
            return q
        st, _ = explore(R, Z, doc, vs, check, cap=8)
        tot += 1
        if st["violations"] or not st["exhaustive"]:
            bad += 1; print(sk, cls or "-", loc, "paths", st["paths"], [(n, a) for (n, a, m, s) in st["violations"]][:3])
print("templates", tot, "flagged", bad, "queries", Z.n, "z3 %.1fs" % Z.t)
