use svgdx::symnum::{self, Sx};
fn tok_terms(out: &str, attr: &str, nth: usize) -> Sx {
    // nth occurrence of attr="TOKEN"
    let pat = format!(" {attr}=\"");
    let mut rest = out; let mut k = 0;
    loop {
        let i = rest.find(&pat).expect("attr");
        let r = &rest[i + pat.len()..];
        let j = r.find('"').unwrap();
        if k == nth { return r[..j].trim_end_matches("mm").parse::<Sx>().unwrap(); }
        k += 1; rest = &r[j..];
    }
}
fn main() {
    let ax = Sx::var(3.0); let ay = Sx::var(4.0); let aw = Sx::var(10.0); let ah = Sx::var(6.0);
    let cx = Sx::var(40.0); let cy = Sx::var(30.0); let cw = Sx::var(5.0); let ch = Sx::var(8.0);
    let doc = format!(r##"<svg>
  <rect id="a" xy="{} {}" wh="{} {}"/>
  <rect id="c" xy="{} {}" wh="{} {}"/>
  <line start="#a" end="#c"/>
</svg>"##, ax.token(), ay.token(), aw.token(), ah.token(), cx.token(), cy.token(), cw.token(), ch.token());
    let out = svgdx::transform_str_default(doc).unwrap();
    eprintln!("{out}");
    let x1 = tok_terms(&out, "x1", 0); let y1 = tok_terms(&out, "y1", 0);
    let x2 = tok_terms(&out, "x2", 0); let y2 = tok_terms(&out, "y2", 0);
    let mut s = symnum::smt_prelude_and_defs();
    // domain: half-integers in [-64,64], sizes >= 0
    for k in 0..8 { s.push_str(&format!("(assert (and (>= v{k} (- 64.0)) (<= v{k} 64.0) (= (* 2.0 v{k}) (to_real (to_int (* 2.0 v{k}))))))\n")); }
    for k in [2,3,6,7] { s.push_str(&format!("(assert (>= v{k} 0.0))\n")); }
    // property: start point is one of 8 candidate locations of a, end one of c, and distance minimal over all 64 pairs
    let cand = |x: &str, y: &str, w: &str, h: &str| -> Vec<(String,String)> {
        let xs = [format!("{x}"), format!("(+ {x} (/ {w} 2.0))"), format!("(+ {x} {w})")];
        let ys = [format!("{y}"), format!("(+ {y} (/ {h} 2.0))"), format!("(+ {y} {h})")];
        let mut v = vec![];
        for (i, xx) in xs.iter().enumerate() { for (j, yy) in ys.iter().enumerate() { if !(i==1 && j==1) { v.push((xx.clone(), yy.clone())); } } }
        v
    };
    let ca = cand("v0","v1","v2","v3"); let cc = cand("v4","v5","v6","v7");
    let (tx1,ty1,tx2,ty2) = (format!("t{}",x1.term()),format!("t{}",y1.term()),format!("t{}",x2.term()),format!("t{}",y2.term()));
    let on_a = ca.iter().map(|(x,y)| format!("(and (= {tx1} {x}) (= {ty1} {y}))")).collect::<Vec<_>>().join(" ");
    let on_c = cc.iter().map(|(x,y)| format!("(and (= {tx2} {x}) (= {ty2} {y}))")).collect::<Vec<_>>().join(" ");
    let d = format!("(+ (* (- {tx1} {tx2}) (- {tx1} {tx2})) (* (- {ty1} {ty2}) (- {ty1} {ty2})))");
    let mut minimal = vec![];
    for (xa,ya) in &ca { for (xc,yc) in &cc { minimal.push(format!("(<= {d} (+ (* (- {xa} {xc}) (- {xa} {xc})) (* (- {ya} {yc}) (- {ya} {yc}))))")); } }
    s.push_str(&format!("(assert (not (and (or {on_a}) (or {on_c}) {})))\n(check-sat)\n", minimal.join(" ")));
    println!("{s}");
}
