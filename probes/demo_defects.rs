use svgdx::symnum::{self, Sx, ENGINE};
fn reset() { ENGINE.with(|e| { let mut e = e.borrow_mut(); e.terms.truncate(1); e.path.clear(); e.vars.clear(); }); }
fn run(name: &str, doc: String) {
    println!("==== {name}\n{doc}");
    match std::panic::catch_unwind(|| svgdx::transform_str_default(doc)) {
        Ok(Ok(out)) => {
            for l in out.lines().filter(|l| l.contains("8888") || l.contains("probe") || l.contains("<rect") || l.contains("<text")) { println!("OUT {l}"); }
            let mut rest = out.as_str();
            while let Some(i) = rest.find("8888") {
                let tok = &rest[i..i + 12];
                if let Ok(x) = tok.parse::<Sx>() { let s = symnum::show(x.term()); println!("  {tok} = {}", if s.len() > 160 { format!("{}…", &s[..160]) } else { s }); }
                rest = &rest[i + 12..];
            }
        }
        Ok(Err(e)) => println!("ERR {e}"),
        Err(_) => println!("PANIC"),
    }
    let p = symnum::show_path(); println!("PATH ({}):", p.len()); for c in p.iter().take(12) { println!("  {}", if c.len() > 140 { format!("{}…", &c[..140]) } else { c.clone() }); }
    reset();
}
fn main() {
    // C15: scope leak after forward reference inside a group
    let k = Sx::var(7.0);
    run("C15-leak", format!(r##"<svg><g k="{}"><rect xy="#later|h" wh="2"/></g><rect id="later" wh="3"/><rect id="probe" x="$k" y="0" wh="1"/></svg>"##, k.token()));
    let k = Sx::var(7.0);
    run("C15-noleak", format!(r##"<svg><rect id="later" wh="3"/><g k="{}"><rect xy="#later|h" wh="2"/></g><rect id="probe" x="$k" y="0" wh="1"/></svg>"##, k.token()));
    // C17: loop with symbolic bound, limit 2
    let n = Sx::var(4.0);
    run("C17-while", format!(r##"<svg><config loop-limit="2"/><var i="0"/><loop while="lt($i, {})"><rect xy="{{{{$i * 3}}}} 0" wh="2"/><var i="{{{{$i + 1}}}}"/></loop></svg>"##, n.token()));
    // C17: sibling containers under depth-limit
    let n = Sx::var(5.0);
    run("C17-depth", format!(r##"<svg><config depth-limit="4"/><var i="0"/><loop while="lt($i, {})"><text>a</text><var i="{{{{$i + 1}}}}"/></loop></svg>"##, n.token()));
    // C10: surround before forward-positioned target
    let (ax, aw, dw) = (Sx::var(10.0), Sx::var(6.0), Sx::var(4.0));
    run("C10-surround-first", format!(r##"<svg><rect surround="#d" margin="1"/><rect id="a" xy="{} 0" wh="{} 5"/><rect id="d" xy="#a|h" width="{}" height="4"/></svg>"##, ax.token(), aw.token(), dw.token()));
    let (ax, aw, dw) = (Sx::var(10.0), Sx::var(6.0), Sx::var(4.0));
    run("C10-surround-last", format!(r##"<svg><rect id="a" xy="{} 0" wh="{} 5"/><rect id="d" xy="#a|h" width="{}" height="4"/><rect surround="#d" margin="1"/></svg>"##, ax.token(), aw.token(), dw.token()));
    // C09 edge offset sign branch
    let (o, w) = (Sx::var(2.0), Sx::var(20.0));
    run("C09-edge", format!(r##"<svg><rect id="r" xy="0" wh="{} 10"/><rect xy="#r@t:{}" wh="2"/></svg>"##, w.token(), o.token()));
}
