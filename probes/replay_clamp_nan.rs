fn main() {
    for doc in [r#"<svg><text text="{{clamp(1, 0/0, 1)}}"/></svg>"#, r#"<svg><rect wh="{{clamp(1, sqrt(-1), 2)}}"/></svg>"#] {
        let r = std::panic::catch_unwind(|| svgdx::transform_str_default(doc));
        match r { Ok(Ok(o)) => println!("OK {}", o.len()), Ok(Err(e)) => println!("ERR {e}"), Err(_) => println!("PANIC for {doc}") }
    }
}
