// PROTOTYPE: rewrite f32 -> symbolic-number shadow type across a crate's sources.
use quote::quote;
use std::fs;
use syn::visit_mut::{self, VisitMut};
use syn::{parse_quote, Expr, ExprCast, ExprLit, Lit, Type};

struct Rw {
    root: syn::Path, // `crate` or `svgdx`
}

fn prim_int(t: &Type) -> Option<String> {
    if let Type::Path(tp) = t {
        if tp.qself.is_none() && tp.path.segments.len() == 1 {
            let id = tp.path.segments[0].ident.to_string();
            if matches!(
                id.as_str(),
                "i8" | "i16" | "i32" | "i64" | "isize" | "u8" | "u16" | "u32" | "u64" | "usize"
            ) {
                return Some(id);
            }
        }
    }
    None
}

fn is_f32_type(t: &Type) -> bool {
    if let Type::Path(tp) = t {
        return tp.qself.is_none() && tp.path.is_ident("f32");
    }
    false
}

impl VisitMut for Rw {
    fn visit_expr_mut(&mut self, e: &mut Expr) {
        // casts: decide on the *original* target type, then recurse into the operand only
        if let Expr::Cast(ExprCast { expr, ty, .. }) = e {
            let root = self.root.clone();
            if is_f32_type(ty) {
                let mut inner = expr.clone();
                self.visit_expr_mut(&mut inner);
                *e = parse_quote!(#root::symnum::ToSx::to_sx(#inner));
                return;
            } else if let Some(id) = prim_int(ty) {
                let mut inner = expr.clone();
                self.visit_expr_mut(&mut inner);
                let m = syn::Ident::new(&format!("to_{}", id), proc_macro2::Span::call_site());
                *e = parse_quote!(#root::symnum::ToPrim::#m(#inner));
                return;
            }
        }
        visit_mut::visit_expr_mut(self, e);
        let root = &self.root;
        match e {
            Expr::Lit(ExprLit { lit: Lit::Float(f), .. }) => {
                let mut digits = f.base10_digits().to_string();
                if digits.ends_with('.') { digits.push('0'); }
                let lit = syn::LitFloat::new(&format!("{}f32", digits), f.span());
                *e = parse_quote!(#root::symnum::lit(#lit));
            }
            Expr::Lit(ExprLit { lit: Lit::Int(i), .. }) if i.suffix() == "f32" => {
                let lit = syn::LitFloat::new(&format!("{}.0f32", i.base10_digits()), i.span());
                *e = parse_quote!(#root::symnum::lit(#lit));
            }
            _ => {}
        }
    }
    fn visit_path_mut(&mut self, p: &mut syn::Path) {
        visit_mut::visit_path_mut(self, p);
        let root = &self.root;
        // bare `f32` (type or first segment of `f32::MAX`)
        if p.leading_colon.is_none() && !p.segments.is_empty() && p.segments[0].ident == "f32" {
            let rest: Vec<_> = p.segments.iter().skip(1).cloned().collect();
            let mut np: syn::Path = parse_quote!(#root::symnum::Sx);
            for s in rest {
                np.segments.push(s);
            }
            *p = np;
            return;
        }
        // std::f32::consts::X / core::f32::consts::X
        let segs: Vec<String> = p.segments.iter().map(|s| s.ident.to_string()).collect();
        if segs.len() >= 3 && (segs[0] == "std" || segs[0] == "core") && segs[1] == "f32" && segs[2] == "consts" {
            let rest: Vec<_> = p.segments.iter().skip(3).cloned().collect();
            let mut np: syn::Path = parse_quote!(#root::symnum::consts);
            for s in rest {
                np.segments.push(s);
            }
            *p = np;
        }
    }
    fn visit_item_use_mut(&mut self, u: &mut syn::ItemUse) {
        let s = quote!(#u).to_string();
        if s.contains("std :: f32 :: consts") || s.contains("core :: f32 :: consts") {
            let root = &self.root;
            let rs = quote!(#root).to_string();
            let ns = s
                .replace("std :: f32 :: consts", &format!("{} :: symnum :: consts", rs))
                .replace("core :: f32 :: consts", &format!("{} :: symnum :: consts", rs));
            *u = syn::parse_str(&ns).expect("use rewrite");
        }
    }
    // don't touch const generic / array-length expressions
    fn visit_type_array_mut(&mut self, t: &mut syn::TypeArray) {
        self.visit_type_mut(&mut t.elem);
    }
    // macro bodies (format!, assert_eq!, vec!, matches!) are token streams: handle common
    // expression-list macros by parsing their args as expressions.
    fn visit_macro_mut(&mut self, m: &mut syn::Macro) {
        let name = m.path.segments.last().map(|s| s.ident.to_string()).unwrap_or_default();
        if matches!(
            name.as_str(),
            "vec" | "assert_eq" | "assert_ne" | "assert" | "format" | "println" | "write" | "writeln"
                | "assert_lt" | "assert_in_delta" | "assert_contains" | "assert_not_contains" | "eprintln" | "panic" | "matches"
        ) {
            use syn::punctuated::Punctuated;
            use syn::parse::Parser;
            let parser = Punctuated::<Expr, syn::Token![,]>::parse_terminated;
            if let Ok(mut args) = parser.parse2(m.tokens.clone()) {
                // `matches!` second arg is a pattern, so only rewrite if it parsed as exprs and isn't matches
                if name != "matches" {
                    for a in args.iter_mut() {
                        self.visit_expr_mut(a);
                    }
                    m.tokens = quote!(#args);
                }
            }
        }
    }
}

fn main() {
    let args: Vec<String> = std::env::args().collect();
    let root: syn::Path = syn::parse_str(&args[1]).unwrap();
    for path in &args[2..] {
        let src = fs::read_to_string(path).unwrap();
        let mut file: syn::File = syn::parse_file(&src).expect(path);
        let mut rw = Rw { root: root.clone() };
        rw.visit_file_mut(&mut file);
        fs::write(path, quote!(#file).to_string()).unwrap();
    }
}
