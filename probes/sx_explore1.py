import sys; sys.path.insert(0, "/tmp/probe2")
from sx_proto import *
import itertools
R = Runner(); Z = Z3(); Z.p.stdin.write(PRELUDE)

def shape_bbox_terms(el):
    """return SMT strings (x1,y1,x2,y2) of an output element from its native attributes (tokens or numbers)"""
    def val(a, default="0.0"):
        v = el.get(a)
        if v is None: return default
        m = TOK.fullmatch(v)
        if m: return f"t{int(m.group(1))}"
        f = Fraction(v); s = f"(/ {abs(f.numerator)}.0 {f.denominator}.0)"; return f"(- {s})" if f < 0 else s
    tag = el.tag.split('}')[-1]
    if tag == "rect": x, y, w, h = val("x"), val("y"), val("width"), val("height"); return (x, y, f"(+ {x} {w})", f"(+ {y} {h})")
    if tag == "circle": cx, cy, r = val("cx"), val("cy"), val("r"); return (f"(- {cx} {r})", f"(- {cy} {r})", f"(+ {cx} {r})", f"(+ {cy} {r})")
    if tag == "ellipse": cx, cy, rx, ry = val("cx"), val("cy"), val("rx"), val("ry"); return (f"(- {cx} {rx})", f"(- {cy} {ry})", f"(+ {cx} {rx})", f"(+ {cy} {ry})")
    if tag == "line": a, b, c, d = val("x1"), val("y1"), val("x2"), val("y2"); return (f"(rmin {a} {c})", f"(rmin {b} {d})", f"(rmax {a} {c})", f"(rmax {b} {d})")
    raise Exception(tag)

def shapes(out):
    root = ET.fromstring(out)
    return [e for e in root.iter() if e.tag.split('}')[-1] in ("rect", "circle", "ellipse", "line")]

# reference element kinds with 4 vars x,y,w,h  -> (markup, bbox oracle)
REFS = {
 "rect":   ('<rect id="r" xy="{v0} {v1}" wh="{v2} {v3}"/>', ("v0", "v1", "(+ v0 v2)", "(+ v1 v3)")),
 "circle": ('<circle id="r" cxy="{v0} {v1}" r="{v2}"/>', ("(- v0 v2)", "(- v1 v2)", "(+ v0 v2)", "(+ v1 v2)")),
 "ellipse":('<ellipse id="r" cxy="{v0} {v1}" rxy="{v2} {v3}"/>', ("(- v0 v2)", "(- v1 v3)", "(+ v0 v2)", "(+ v1 v3)")),
 "line":   ('<line id="r" xy1="{v0} {v1}" xy2="{v2} {v3}"/>', ("(rmin v0 v2)", "(rmin v1 v3)", "(rmax v0 v2)", "(rmax v1 v3)")),
}
POS = {
 "rect":   ('<rect {rel} wh="{v5} {v6}"/>', "v5", "v6"),
 "circle": ('<circle {rel} r="{v5}"/>', "(* 2.0 v5)", "(* 2.0 v5)"),
 "ellipse":('<ellipse {rel} rxy="{v5} {v6}"/>', "(* 2.0 v5)", "(* 2.0 v6)"),
}
base = [(3.0, -512, 512, 1), (4.0, -512, 512, 1), (20.0, 0, 256, 1), (10.0, 0, 256, 1), (2.0, -64, 64, 1), (6.0, 0, 128, 1), (8.0, 0, 128, 1)]
if __name__ != "__main__": REFS = {}
tot = 0; bad = 0
for rk, (rm, rb) in REFS.items():
    for pk, (pm, pw, ph) in POS.items():
        for d in "hHvV":
            for ref in ("#r", "^"):
                doc = "<svg>" + rm + pm.replace("{rel}", f'xy="{ref}|{d} {{v4}}"') + "</svg>"
                vs = list(base)
                if rk == "line": vs[2] = (20.0, -512, 512, 1); vs[3] = (10.0, -512, 512, 1)
                rcx = f"(/ (+ {rb[0]} {rb[2]}) 2.0)"; rcy = f"(/ (+ {rb[1]} {rb[3]}) 2.0)"
                exp = {"h": (f"(+ {rb[2]} v4)", f"(- {rcy} (/ {ph} 2.0))"), "H": (f"(- (- {rb[0]} v4) {pw})", f"(- {rcy} (/ {ph} 2.0))"),
                       "v": (f"(- {rcx} (/ {pw} 2.0))", f"(+ {rb[3]} v4)"), "V": (f"(- {rcx} (/ {pw} 2.0))", f"(- (- {rb[1]} v4) {ph})")}[d]
                def check(r, exp=exp, pw=pw, ph=ph):
                    if not r["status"].startswith("ok"): return [("status " + r["status"][:60], "true")]
                    sh = shapes(r["output"]); b = shape_bbox_terms(sh[1])
                    return [("x1", f"(not (= {b[0]} {exp[0]}))"), ("y1", f"(not (= {b[1]} {exp[1]}))"), ("w", f"(not (= (- {b[2]} {b[0]}) {pw}))"), ("h", f"(not (= (- {b[3]} {b[1]}) {ph}))")]
                st, seen = explore(R, Z, doc, vs, check, cap=16)
                tot += 1
                if st["violations"] or not st["exhaustive"] or st["inexact_branches"]:
                    bad += 1
                    print(rk, pk, d, ref, "paths", st["paths"], "exh", st["exhaustive"], "inexact", st["inexact_branches"], [(n, a, m) for (n, a, m, s) in st["violations"]][:3])
print("templates", tot, "flagged", bad, "z3 queries", Z.n, "z3 time %.1fs" % Z.t)
