import sys, itertools; sys.path.insert(0, "/tmp/probe2")
from sx_proto import *
R = Runner(); Z = Z3(("z3","-in","-t:20000"))
EUF = """(declare-fun fadd (Real Real) Real)(declare-fun fsub (Real Real) Real)(declare-fun fmul (Real Real) Real)(declare-fun fdiv (Real Real) Real)
(declare-fun fneg (Real) Real)(declare-fun frem (Real Real) Real)(declare-fun flt (Real Real) Bool)(declare-fun fle (Real Real) Bool)(declare-fun feq (Real Real) Bool)
"""
Z.p.stdin.write(EUF)
def defs_euf(r):
    s = "".join(f"(declare-const v{k} Real)\n" for k in range(len(r["vars"])))
    for i in sorted(r["terms"]):
        ex, op, a = r["terms"][i]; t = lambda x: f"t{x}"
        if op == "var": d = f"v{a[0]}"
        elif op == "const": d = const_smt(int(a[0]))
        elif op in ("add","sub","mul","div"): d = f"(f{op} {t(a[0])} {t(a[1])})"
        elif op == "neg": d = f"(fneg {t(a[0])})"
        elif op == "app" and a[0] == "rem_euclid": d = f"(frem {t(a[1])} {t(a[2])})"
        else: s += f"(declare-const u{i} Real)\n"; d = f"u{i}"
        s += f"(define-fun t{i} () Real {d})\n"
    return s
def cond_euf(c):
    taken, op, a, b = c
    f = "(f%s t%d t%d)" % (op, a, b)
    return f if taken else f"(not {f})"
# reference evaluator: precedence climbing over tokens -> SMT term with uninterpreted ops
def ref_eval(tokens):
    pos = [0]
    def peek(): return tokens[pos[0]] if pos[0] < len(tokens) else None
    def nxt(): pos[0] += 1; return tokens[pos[0]-1]
    def primary():
        t = nxt()
        if t == "(": e = term(); assert nxt() == ")"; return e
        if t == "-": return f"(fneg {primary()})"
        return t
    def factor():
        e = primary()
        while peek() in ("*", "/", "%"):
            o = nxt(); e = "(%s %s %s)" % ({"*": "fmul", "/": "fdiv", "%": "frem"}[o], e, primary())
        return e
    def term():
        e = factor()
        while peek() in ("+", "-"):
            o = nxt(); e = "(%s %s %s)" % ({"+": "fadd", "-": "fsub"}[o], e, factor())
        return e
    e = term(); assert pos[0] == len(tokens), tokens; return e
vs = [(3.0,-512,512,1),(4.5,-512,512,1),(-2.0,-512,512,1),(7.0,-512,512,1)]
ops = "+-*/%"
exprs = []
for o1, o2 in itertools.product(ops, ops): exprs.append(["v0", o1, "v1", o2, "v2"])
for o1, o2, o3 in itertools.product(ops, ops, ops): exprs.append(["v0", o1, "v1", o2, "v2", o3, "v3"])
for o1, o2 in itertools.product(ops, ops):
    exprs += [["(", "v0", o1, "v1", ")", o2, "v2"], ["v0", o1, "(", "v1", o2, "v2", ")"], ["-", "v0", o1, "v1"], ["v0", o1, "-", "v1", o2, "v2"], ["-", "(", "v0", o1, "v1", ")", o2, "v2"]]
tot = bad = 0
for toks in exprs:
    src = " ".join("{%s}" % t if t.startswith("v") else t for t in toks)
    doc = '<svg><rect data-v="{{%s}}" width="1" height="1"/></svg>' % src
    r = R.run(doc, vs); tot += 1
    if not r["status"].startswith("ok"): print("ERR", src, r["status"][:80]); bad += 1; continue
    x = ET.fromstring(r["output"]).find(".//{http://www.w3.org/2000/svg}rect").get("data-v")
    m = TOK.fullmatch(x)
    q = defs_euf(r) + "".join(f"(assert {cond_euf(c)})\n" for c in r["path"]) + f"(assert (not (= t{int(m.group(1))} {ref_eval(toks)})))\n"
    ans, _ = Z.ask(q)
    if ans != "unsat": bad += 1; print("MISMATCH", src, ans)
print("expressions", tot, "flagged", bad, "z3 %.2fs" % Z.t)
