// ---- appended to src/position.rs ----
#[cfg(kani)]
mod verif_probe {
    use super::*;

    // multiples of 1/8 with |x| <= 4096, built without float division
    fn any_dy() -> f32 {
        let v: i32 = kani::any();
        kani::assume(v >= -32768 && v <= 32768);
        let f = v as f32;
        if v == 0 { 0.0 } else { f32::from_bits(f.to_bits() - (3u32 << 23)) }
    }
    fn any_dy_mul() -> f32 {
        let v: i32 = kani::any();
        kani::assume(v >= -32768 && v <= 32768);
        (v as f32) * 0.125
    }
    // constrain a raw f32 instead
    fn any_dy_raw() -> f32 {
        let x: f32 = kani::any();
        kani::assume(x.is_finite() && x >= -4096.0 && x <= 4096.0);
        let b = x.to_bits();
        let e = ((b >> 23) & 0xff) as i32 - 127; // unbiased exponent
        // need ulp >= 1/8: ulp = 2^(e-23) >= 2^-3 <=> low (20 - e) mantissa bits zero for e<=20 ; for multiples of 1/8: mantissa low bits (23 - e - 3) must be zero
        if x != 0.0 {
            kani::assume(e >= -3);
            let z = (20 - e) as u32; // number of low mantissa bits that must be zero
            if z > 0 { kani::assume(b & ((1u32 << z) - 1) == 0); }
        }
        x
    }

    #[kani::proof]
    fn probe_a_bits() {
        let x1 = any_dy(); let w = any_dy(); kani::assume(w >= 0.0);
        let mut a = Position::new("rect");
        a.xmin = Some(x1); a.width = Some(w); a.ymin = Some(0.0); a.height = Some(1.0);
        let mut c = Position::new("rect");
        c.cx = Some(x1 + w / 2.0); c.width = Some(w); c.ymin = Some(0.0); c.height = Some(1.0);
        let ba = a.to_bbox().unwrap(); let bc = c.to_bbox().unwrap();
        assert!(ba == bc);
    }
    #[kani::proof]
    fn probe_a_mul() {
        let x1 = any_dy_mul(); let w = any_dy_mul(); kani::assume(w >= 0.0);
        let mut a = Position::new("rect");
        a.xmin = Some(x1); a.width = Some(w); a.ymin = Some(0.0); a.height = Some(1.0);
        let mut c = Position::new("rect");
        c.cx = Some(x1 + w / 2.0); c.width = Some(w); c.ymin = Some(0.0); c.height = Some(1.0);
        let ba = a.to_bbox().unwrap(); let bc = c.to_bbox().unwrap();
        assert!(ba == bc);
    }
    #[kani::proof]
    fn probe_a_raw() {
        let x1 = any_dy_raw(); let w = any_dy_raw(); kani::assume(w >= 0.0);
        let mut a = Position::new("rect");
        a.xmin = Some(x1); a.width = Some(w); a.ymin = Some(0.0); a.height = Some(1.0);
        let mut c = Position::new("rect");
        c.cx = Some(x1 + w / 2.0); c.width = Some(w); c.ymin = Some(0.0); c.height = Some(1.0);
        let ba = a.to_bbox().unwrap(); let bc = c.to_bbox().unwrap();
        assert!(ba == bc);
    }
    // no Position/String: just the arithmetic
    #[kani::proof]
    fn probe_a_arith_only() {
        let x1 = any_dy(); let w = any_dy(); kani::assume(w >= 0.0);
        let m = x1 + w / 2.0;
        assert!(m - w / 2.0 == x1);
        assert!(m + w / 2.0 == x1 + w);
    }
}

#[cfg(kani)]
mod verif_probe3 {
    use super::*;
    fn any_dy(lim: i32) -> f32 { let v: i32 = kani::any(); kani::assume(v >= -lim && v <= lim); (v as f32) * 0.125 }
    #[kani::proof]
    fn probe_locspec_edges() {
        let x1 = any_dy(8192); let y1 = any_dy(8192); let w = any_dy(4096); let h = any_dy(4096);
        kani::assume(w >= 0.0 && h >= 0.0);
        let bb = BoundingBox::new(x1, y1, x1 + w, y1 + h);
        let o = any_dy(4096);
        let (px, py) = bb.locspec(LocSpec::TopEdge(Length::Absolute(o)));
        assert!(py == y1);
        if o >= 0.0 { assert!(px == x1 + o); } else { assert!(px == (x1 + w) + o); }
        let (qx, qy) = bb.locspec(LocSpec::RightEdge(Length::Ratio(0.25)));
        assert!(qx == x1 + w);
        assert!(qy == y1 + ((y1 + h) - y1) * 0.25);
        let (cx, cy) = bb.locspec(LocSpec::Center);
        assert!(cx == (x1 + (x1 + w)) / 2.0 && cy == (y1 + (y1 + h)) / 2.0);
        kani::cover!(o < 0.0);
    }
    #[kani::proof]
    fn probe_round_outward() {
        let a: f32 = kani::any(); let b: f32 = kani::any(); let c: f32 = kani::any(); let d: f32 = kani::any();
        kani::assume(a.is_finite() && b.is_finite() && c.is_finite() && d.is_finite());
        kani::assume(a.abs() < 8388608.0 && b.abs() < 8388608.0 && c.abs() < 8388608.0 && d.abs() < 8388608.0);
        kani::assume(a <= c && b <= d);
        let mut bb = BoundingBox::new(a, b, c, d);
        bb.round();
        assert!(bb.x1 <= a && bb.y1 <= b && bb.x2 >= c && bb.y2 >= d);
        assert!(a - bb.x1 < 1.0 && bb.x2 - c < 1.0);
        assert!(bb.x1 == bb.x1.floor() && bb.x2 == bb.x2.ceil());
    }
    #[kani::proof]
    fn probe_trbl() {
        let x1 = any_dy(8192); let y1 = any_dy(8192); let w = any_dy(4096); let h = any_dy(4096);
        kani::assume(w >= 0.0 && h >= 0.0);
        let mut bb = BoundingBox::new(x1, y1, x1 + w, y1 + h);
        let m = any_dy(1024);
        bb.expand_trbl_length(TrblLength::new(Length::Absolute(m), Length::Ratio(0.5), Length::Absolute(m), Length::Ratio(0.25)));
        let base = if w >= h { w } else { h };
        assert!(bb.y1 == y1 - m && bb.y2 == (y1 + h) + m);
        assert!(bb.x2 == (x1 + w) + base * 0.5 && bb.x1 == x1 - base * 0.25);
    }
}

// ---- appended to src/element.rs ----
#[cfg(kani)]
pub mod verif_probe {
    use super::*;

    static mut TBL: [f32; 16] = [0.0; 16];
    static mut TN: usize = 0;

    pub fn tok(x: f32) -> String {
        unsafe {
            let k = TN;
            TBL[k] = x;
            TN += 1;
            let mut s = String::with_capacity(2);
            s.push('~');
            s.push((b'A' + k as u8) as char);
            s
        }
    }
    pub fn fstr_stub(x: f32) -> String {
        tok(x)
    }
    pub fn untok(s: &str) -> Option<f32> {
        let b = s.as_bytes();
        if b.len() == 2 && b[0] == b'~' {
            let k = (b[1] - b'A') as usize;
            unsafe { if k < TN { return Some(TBL[k]); } }
        }
        None
    }
    pub fn strp_stub(s: &str) -> Result<f32> {
        if let Some(v) = untok(s.trim()) {
            return Ok(v);
        }
        // tiny concrete decimal parser: [-]digits
        let b = s.trim().as_bytes();
        if b.is_empty() { return Err(SvgdxError::ParseError(String::new())); }
        let (neg, ds) = if b[0] == b'-' { (true, &b[1..]) } else { (false, b) };
        if ds.is_empty() { return Err(SvgdxError::ParseError(String::new())); }
        let mut v: f32 = 0.0;
        for c in ds {
            if !c.is_ascii_digit() { return Err(SvgdxError::ParseError(String::new())); }
            v = v * 10.0 + ((*c - b'0') as f32);
        }
        Ok(if neg { -v } else { v })
    }

    pub fn reorder_stub(_m: &mut AttrMap) {}
    fn any_dy() -> f32 {
        let v: i32 = kani::any();
        kani::assume(v >= -32768 && v <= 32768);
        (v as f32) * 0.125
    }

    #[kani::proof]
    #[kani::unwind(12)]
    #[kani::stub(crate::types::fstr, fstr_stub)]
    #[kani::stub(crate::types::strp, strp_stub)]
    #[kani::stub(crate::types::AttrMap::reorder, reorder_stub)]
    fn probe_setpos_rect() {
        let x2 = any_dy();
        let w = any_dy();
        kani::assume(w >= 0.0);
        let mut el = SvgElement::new(
            "rect",
            &[
                ("x2".to_string(), tok(x2)),
                ("width".to_string(), tok(w)),
                ("y".to_string(), "3".to_string()),
                ("height".to_string(), "4".to_string()),
            ],
        );
        let p = Position::from(&el);
        p.set_position_attrs(&mut el);
        let x = untok(&el.get_attr("x").unwrap()).unwrap();
        let ow = untok(&el.get_attr("width").unwrap()).unwrap();
        assert!(x == x2 - w);
        assert!(ow == x2 - (x2 - w));
        assert!(el.get_attr("x2").is_none());
        assert!(untok(&el.get_attr("y").unwrap()).unwrap() == 3.0);
    }
}

// ---- appended to src/path.rs ----
#[cfg(kani)]
mod verif_probe {
    use super::*;

    fn parse_f32_stub(_s: &str) -> core::result::Result<f32, core::num::ParseFloatError> {
        // nondeterministic result: either some float or an error
        if kani::any() {
            let v: f32 = kani::any();
            Ok(v)
        } else {
            // obtain a ParseFloatError value cheaply
            Err(unsafe { core::mem::transmute::<u8, core::num::ParseFloatError>(1u8) })
        }
    }

    #[kani::proof]
    #[kani::unwind(7)]
    #[kani::stub(<f32 as core::str::FromStr>::from_str, parse_f32_stub)]
    fn probe_path_total() {
        const N: usize = 4;
        let arr: [u8; N] = kani::any();
        let mut data: Vec<char> = Vec::with_capacity(N);
        for i in 0..N { kani::assume(arr[i] < 128); data.push(arr[i] as char); }
        let mut pp = PathParser::new("");
        pp.tokens = SvgPathSyntax { data, index: 0 };
        let _ = pp.evaluate();
    }
}

// ---- appended to src/themes.rs ----
#[cfg(kani)]
mod verif_probe {
    use std::collections::HashSet;
    #[kani::proof]
    #[kani::unwind(10)]
    fn probe_hashset_order() {
        let mut a: HashSet<String> = HashSet::new();
        a.insert("d-grid-5".to_string());
        a.insert("d-grid-9".to_string());
        let mut b: HashSet<String> = HashSet::new();
        b.insert("d-grid-5".to_string());
        b.insert("d-grid-9".to_string());
        let fa = a.iter().next().unwrap().clone();
        let fb = b.iter().next().unwrap().clone();
        assert!(fa == fb);
    }
}

// ---- appended to src/connector.rs ----
#[cfg(kani)]
mod verif_probe2 {
    use super::*;
    use crate::position::{BoundingBox, Size};
    use crate::types::{AttrMap, ClassList, ElRef, OrderIndex};

    fn any_dy(lim: i32) -> f32 {
        let v: i32 = kani::any();
        kani::assume(v >= -lim && v <= lim);
        (v as f32) * 0.5
    }
    fn any_box() -> BoundingBox {
        let x = any_dy(128); let y = any_dy(128);
        let w = any_dy(64); let h = any_dy(64);
        kani::assume(w >= 0.0 && h >= 0.0);
        BoundingBox::new(x, y, x + w, y + h)
    }
    fn bare(name: &str, idx: usize) -> SvgElement {
        SvgElement {
            name: name.to_string(), original: String::new(), attrs: AttrMap::new(), classes: ClassList::new(),
            text_content: None, order_index: OrderIndex::new(idx), indent: 0, src_line: 0, event_range: None, content_bbox: None,
        }
    }
    struct Ctx { a: BoundingBox, b: BoundingBox }
    impl ElementMap for Ctx {
        fn get_element(&self, _e: &ElRef) -> Option<&SvgElement> { None }
        fn get_element_bbox(&self, el: &SvgElement) -> Result<Option<BoundingBox>> {
            Ok(Some(if el.indent == 0 { self.a } else { self.b }))
        }
        fn get_element_size(&self, _el: &SvgElement) -> Result<Option<Size>> { Ok(None) }
    }
    fn d2(p: (f32, f32), q: (f32, f32)) -> f32 { (p.0 - q.0) * (p.0 - q.0) + (p.1 - q.1) * (p.1 - q.1) }

    #[kani::proof]
    #[kani::unwind(10)]
    fn probe_closest_loc_straight() {
        let ctx = Ctx { a: any_box(), b: any_box() };
        let this = bare("rect", 0);
        let pt = (any_dy(128), any_dy(128));
        let loc = closest_loc(&this, pt, ConnectionType::Straight, &ctx).unwrap();
        let sel = ctx.a.locspec(loc);
        for cand in edge_locations(ConnectionType::Straight) {
            assert!(d2(sel, pt) <= d2(ctx.a.locspec(cand), pt));
        }
        kani::cover!(loc == LocSpec::BottomRight);
    }

    #[kani::proof]
    #[kani::unwind(6)]
    fn probe_shortest_link_h() {
        let ctx = Ctx { a: any_box(), b: any_box() };
        let this = bare("rect", 0);
        let mut that = bare("rect", 1); that.indent = 1;
        let (l1, l2) = shortest_link(&this, &that, ConnectionType::Horizontal, &ctx).unwrap();
        let sel = d2(ctx.a.locspec(l1), ctx.b.locspec(l2));
        for c1 in edge_locations(ConnectionType::Horizontal) { for c2 in edge_locations(ConnectionType::Horizontal) {
            assert!(sel <= d2(ctx.a.locspec(c1), ctx.b.locspec(c2)));
        } }
    }
}

// ---- appended to src/expression.rs ----
#[cfg(kani)]
mod verif_probe4 {
    use super::*;
    use crate::context::{ElementMap, VariableMap};
    use crate::element::SvgElement;
    use crate::position::{BoundingBox, Size};
    use crate::types::ElRef;
    use rand::SeedableRng;
    use rand_pcg::Pcg32;
    use std::cell::RefCell;

    struct Ctx { rng: RefCell<Pcg32> }
    impl ElementMap for Ctx {
        fn get_element(&self, _e: &ElRef) -> Option<&SvgElement> { None }
        fn get_element_bbox(&self, _el: &SvgElement) -> Result<Option<BoundingBox>> { Ok(None) }
        fn get_element_size(&self, _el: &SvgElement) -> Result<Option<Size>> { Ok(None) }
    }
    impl VariableMap for Ctx {
        fn get_var(&self, _name: &str) -> Option<String> { None }
        fn get_rng(&self) -> &RefCell<Pcg32> { &self.rng }
    }
    impl ContextView for Ctx {}

    fn fmt_stub(_args: core::fmt::Arguments<'_>) -> String { String::new() }

    #[kani::proof]
    #[kani::unwind(5)]
    #[kani::stub(alloc::fmt::format, fmt_stub)]
    fn probe_clamp_total() {
        let ctx = Ctx { rng: RefCell::new(Pcg32::seed_from_u64(0)) };
        let mut es = EvalState::new(Vec::<Token>::new(), &ctx, &[]);
        let a: f32 = kani::any(); let b: f32 = kani::any(); let c: f32 = kani::any();
        let args = ExprValue::List(vec![ExprValue::Number(a), ExprValue::Number(b), ExprValue::Number(c)]);
        let r = eval_function(Function::Clamp, &args, &mut es);
        core::mem::forget(r);
        core::mem::forget(args);
    }

    fn any_fun() -> Function {
        let k: u8 = kani::any();
        match k {
            0 => Function::Abs, 1 => Function::Ceil, 2 => Function::Floor, 3 => Function::Fract, 4 => Function::Sign,
            5 => Function::DivMod, 6 => Function::Sqrt, 7 => Function::Min, 8 => Function::Max, 9 => Function::Sum,
            10 => Function::Product, 11 => Function::Mean, 12 => Function::Clamp, 13 => Function::Mix, 14 => Function::Equal,
            15 => Function::NotEqual, 16 => Function::LessThan, 17 => Function::LessThanEqual, 18 => Function::GreaterThan,
            19 => Function::GreaterThanEqual, 20 => Function::If, 21 => Function::Not, 22 => Function::And, 23 => Function::Or,
            24 => Function::Xor, 25 => Function::Swap, 26 => Function::Select, 27 => Function::Addv, 28 => Function::Subv,
            29 => Function::Scalev, 30 => Function::Head, 31 => Function::Tail, 32 => Function::Empty, 33 => Function::Count,
            34 => Function::In, 35 => Function::Rect2Polar, 36 => Function::Polar2Rect, 37 => Function::Pow, 38 => Function::Exp,
            39 => Function::Log, 40 => Function::Sin, 41 => Function::Cos, 42 => Function::Tan, 43 => Function::Asin,
            44 => Function::Acos, _ => Function::Atan,
        }
    }

    #[kani::proof]
    #[kani::unwind(6)]
    #[kani::stub(alloc::fmt::format, fmt_stub)]
    fn probe_functions_total() {
        let ctx = Ctx { rng: RefCell::new(Pcg32::seed_from_u64(0)) };
        let mut es = EvalState::new(Vec::<Token>::new(), &ctx, &[]);
        let n: usize = kani::any();
        kani::assume(n <= 3);
        let mut v = Vec::with_capacity(3);
        for _ in 0..n { v.push(ExprValue::Number(kani::any())); }
        let args = ExprValue::List(v);
        let f = any_fun();
        kani::assume(f != Function::Clamp); // known finding from probe_clamp_total
        let r = eval_function(f, &args, &mut es);
        core::mem::forget(r);
        core::mem::forget(args);
    }

    #[kani::proof]
    #[kani::unwind(8)]
    #[kani::stub(alloc::fmt::format, fmt_stub)]
    fn probe_eval_ops() {
        let ctx = Ctx { rng: RefCell::new(Pcg32::seed_from_u64(0)) };
        fn any_op() -> Token { let k: u8 = kani::any(); match k { 0 => Token::Add, 1 => Token::Sub, 2 => Token::Mul, 3 => Token::Div, _ => Token::Mod } }
        let (a, b, c): (f32, f32, f32) = (kani::any(), kani::any(), kani::any());
        let toks = vec![Token::Number(a), any_op(), Token::Number(b), any_op(), Token::Number(c)];
        let r = evaluate(toks, &ctx);
        core::mem::forget(r);
    }

    #[kani::proof]
    #[kani::unwind(6)]
    #[kani::stub(alloc::fmt::format, fmt_stub)]
    fn probe_eval_ops2() {
        let ctx = Ctx { rng: RefCell::new(Pcg32::seed_from_u64(0)) };
        let (a, b): (f32, f32) = (kani::any(), kani::any());
        let k: u8 = kani::any();
        let op = match k { 0 => Token::Add, 1 => Token::Sub, 2 => Token::Mul, _ => Token::Div };
        let toks = vec![Token::Number(a), op, Token::Number(b)];
        let r = evaluate(toks, &ctx);
        if let Ok(ExprValue::Number(v)) = &r {
            let e = match k { 0 => a + b, 1 => a - b, 2 => a * b, _ => a / b };
            assert!(v.to_bits() == e.to_bits() || (v.is_nan() && e.is_nan()));
        }
        core::mem::forget(r);
    }
    #[kani::proof]
    #[kani::unwind(6)]
    #[kani::stub(alloc::fmt::format, fmt_stub)]
    fn probe_fn_mean() {
        let ctx = Ctx { rng: RefCell::new(Pcg32::seed_from_u64(0)) };
        let mut es = EvalState::new(Vec::<Token>::new(), &ctx, &[]);
        let n: usize = kani::any();
        kani::assume(n <= 3);
        let mut v = Vec::with_capacity(3);
        for _ in 0..n { v.push(ExprValue::Number(kani::any())); }
        let args = ExprValue::List(v);
        let r = eval_function(Function::Mean, &args, &mut es);
        core::mem::forget(r);
        core::mem::forget(args);
    }
}
