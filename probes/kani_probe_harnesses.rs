// ---- appended to src/position.rs ----
#[cfg(kani)]
mod verif_probe {
    use super::*;

    // multiples of 1/8 with |x| <= 4096, built without float division
    fn any_dy() -> f32 {
        let v: i32 = kani::any();
        kani::assume(v >= -32768 && v <= 32768);
        let f = v as f32;
        if v == 0 { 0.0 } else { f32::from_bits(f.to_bits() - (3u32 << 23)) }
    }
    fn any_dy_mul() -> f32 {
        let v: i32 = kani::any();
        kani::assume(v >= -32768 && v <= 32768);
        (v as f32) * 0.125
    }
    // constrain a raw f32 instead
    fn any_dy_raw() -> f32 {
        let x: f32 = kani::any();
        kani::assume(x.is_finite() && x >= -4096.0 && x <= 4096.0);
        let b = x.to_bits();
        let e = ((b >> 23) & 0xff) as i32 - 127; // unbiased exponent
        // need ulp >= 1/8: ulp = 2^(e-23) >= 2^-3 <=> low (20 - e) mantissa bits zero for e<=20 ; for multiples of 1/8: mantissa low bits (23 - e - 3) must be zero
        if x != 0.0 {
            kani::assume(e >= -3);
            let z = (20 - e) as u32; // number of low mantissa bits that must be zero
            if z > 0 { kani::assume(b & ((1u32 << z) - 1) == 0); }
        }
        x
    }

    #[kani::proof]
    fn probe_a_bits() {
        let x1 = any_dy(); let w = any_dy(); kani::assume(w >= 0.0);
        let mut a = Position::new("rect");
        a.xmin = Some(x1); a.width = Some(w); a.ymin = Some(0.0); a.height = Some(1.0);
        let mut c = Position::new("rect");
        c.cx = Some(x1 + w / 2.0); c.width = Some(w); c.ymin = Some(0.0); c.height = Some(1.0);
        let ba = a.to_bbox().unwrap(); let bc = c.to_bbox().unwrap();
        assert!(ba == bc);
    }
    #[kani::proof]
    fn probe_a_mul() {
        let x1 = any_dy_mul(); let w = any_dy_mul(); kani::assume(w >= 0.0);
        let mut a = Position::new("rect");
        a.xmin = Some(x1); a.width = Some(w); a.ymin = Some(0.0); a.height = Some(1.0);
        let mut c = Position::new("rect");
        c.cx = Some(x1 + w / 2.0); c.width = Some(w); c.ymin = Some(0.0); c.height = Some(1.0);
        let ba = a.to_bbox().unwrap(); let bc = c.to_bbox().unwrap();
        assert!(ba == bc);
    }
    #[kani::proof]
    fn probe_a_raw() {
        let x1 = any_dy_raw(); let w = any_dy_raw(); kani::assume(w >= 0.0);
        let mut a = Position::new("rect");
        a.xmin = Some(x1); a.width = Some(w); a.ymin = Some(0.0); a.height = Some(1.0);
        let mut c = Position::new("rect");
        c.cx = Some(x1 + w / 2.0); c.width = Some(w); c.ymin = Some(0.0); c.height = Some(1.0);
        let ba = a.to_bbox().unwrap(); let bc = c.to_bbox().unwrap();
        assert!(ba == bc);
    }
    // no Position/String: just the arithmetic
    #[kani::proof]
    fn probe_a_arith_only() {
        let x1 = any_dy(); let w = any_dy(); kani::assume(w >= 0.0);
        let m = x1 + w / 2.0;
        assert!(m - w / 2.0 == x1);
        assert!(m + w / 2.0 == x1 + w);
    }
}

// ---- appended to src/element.rs ----
#[cfg(kani)]
pub mod verif_probe {
    use super::*;

    static mut TBL: [f32; 16] = [0.0; 16];
    static mut TN: usize = 0;

    pub fn tok(x: f32) -> String {
        unsafe {
            let k = TN;
            TBL[k] = x;
            TN += 1;
            let mut s = String::with_capacity(2);
            s.push('~');
            s.push((b'A' + k as u8) as char);
            s
        }
    }
    pub fn fstr_stub(x: f32) -> String {
        tok(x)
    }
    pub fn untok(s: &str) -> Option<f32> {
        let b = s.as_bytes();
        if b.len() == 2 && b[0] == b'~' {
            let k = (b[1] - b'A') as usize;
            unsafe { if k < TN { return Some(TBL[k]); } }
        }
        None
    }
    pub fn strp_stub(s: &str) -> Result<f32> {
        if let Some(v) = untok(s.trim()) {
            return Ok(v);
        }
        // tiny concrete decimal parser: [-]digits
        let b = s.trim().as_bytes();
        if b.is_empty() { return Err(SvgdxError::ParseError(String::new())); }
        let (neg, ds) = if b[0] == b'-' { (true, &b[1..]) } else { (false, b) };
        if ds.is_empty() { return Err(SvgdxError::ParseError(String::new())); }
        let mut v: f32 = 0.0;
        for c in ds {
            if !c.is_ascii_digit() { return Err(SvgdxError::ParseError(String::new())); }
            v = v * 10.0 + ((*c - b'0') as f32);
        }
        Ok(if neg { -v } else { v })
    }

    pub fn reorder_stub(_m: &mut AttrMap) {}
    fn any_dy() -> f32 {
        let v: i32 = kani::any();
        kani::assume(v >= -32768 && v <= 32768);
        (v as f32) * 0.125
    }

    #[kani::proof]
    #[kani::unwind(12)]
    #[kani::stub(crate::types::fstr, fstr_stub)]
    #[kani::stub(crate::types::strp, strp_stub)]
    #[kani::stub(crate::types::AttrMap::reorder, reorder_stub)]
    fn probe_setpos_rect() {
        let x2 = any_dy();
        let w = any_dy();
        kani::assume(w >= 0.0);
        let mut el = SvgElement::new(
            "rect",
            &[
                ("x2".to_string(), tok(x2)),
                ("width".to_string(), tok(w)),
                ("y".to_string(), "3".to_string()),
                ("height".to_string(), "4".to_string()),
            ],
        );
        let p = Position::from(&el);
        p.set_position_attrs(&mut el);
        let x = untok(&el.get_attr("x").unwrap()).unwrap();
        let ow = untok(&el.get_attr("width").unwrap()).unwrap();
        assert!(x == x2 - w);
        assert!(ow == x2 - (x2 - w));
        assert!(el.get_attr("x2").is_none());
        assert!(untok(&el.get_attr("y").unwrap()).unwrap() == 3.0);
    }
}

// ---- appended to src/path.rs ----
#[cfg(kani)]
mod verif_probe {
    use super::*;

    fn parse_f32_stub(_s: &str) -> core::result::Result<f32, core::num::ParseFloatError> {
        // nondeterministic result: either some float or an error
        if kani::any() {
            let v: f32 = kani::any();
            Ok(v)
        } else {
            // obtain a ParseFloatError value cheaply
            Err(unsafe { core::mem::transmute::<u8, core::num::ParseFloatError>(1u8) })
        }
    }

    #[kani::proof]
    #[kani::unwind(7)]
    #[kani::stub(<f32 as core::str::FromStr>::from_str, parse_f32_stub)]
    fn probe_path_total() {
        const N: usize = 4;
        let arr: [u8; N] = kani::any();
        let mut data: Vec<char> = Vec::with_capacity(N);
        for i in 0..N { kani::assume(arr[i] < 128); data.push(arr[i] as char); }
        let mut pp = PathParser::new("");
        pp.tokens = SvgPathSyntax { data, index: 0 };
        let _ = pp.evaluate();
    }
}

// ---- appended to src/themes.rs ----
#[cfg(kani)]
mod verif_probe {
    use std::collections::HashSet;
    #[kani::proof]
    #[kani::unwind(10)]
    fn probe_hashset_order() {
        let mut a: HashSet<String> = HashSet::new();
        a.insert("d-grid-5".to_string());
        a.insert("d-grid-9".to_string());
        let mut b: HashSet<String> = HashSet::new();
        b.insert("d-grid-5".to_string());
        b.insert("d-grid-9".to_string());
        let fa = a.iter().next().unwrap().clone();
        let fb = b.iter().next().unwrap().clone();
        assert!(fa == fb);
    }
}
