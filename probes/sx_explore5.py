import sys, itertools; sys.path.insert(0, "/tmp/probe2")
from sx_proto import *
import explore1
from explore1 import shape_bbox_terms, shapes
R = Runner(); Z = Z3(("z3","-in","-t:20000")); Z.p.stdin.write(PRELUDE)
# C10: DAG a <- d (|h) <- s (surround d) ; all 6 orders x spelling of d's size
els = {
 "a": '<rect id="a" xy="{v0} {v1}" wh="{v2} {v3}"/>',
 "d_wh": '<rect id="d" xy="#a|h {v4}" wh="{v5} {v6}"/>',
 "d_long": '<rect id="d" xy="#a|h {v4}" width="{v5}" height="{v6}"/>',
 "s": '<rect id="s" surround="#d" margin="{v7}"/>',
}
base = [(3.0,-256,256,1),(4.0,-256,256,1),(20.0,0,128,0),(10.0,0,128,0),(2.0,-16,16,1),(6.0,0,64,0),(8.0,0,64,0),(1.0,0,16,1)]
# oracle boxes
A = ("v0","v1","(+ v0 v2)","(+ v1 v3)")
dx = "(+ (+ v0 v2) v4)"; dy = "(- (+ v1 (/ v3 2.0)) (/ v6 2.0))"
D = (dx, dy, f"(+ {dx} v5)", f"(+ {dy} v6)")
S = (f"(- {D[0]} v7)", f"(- {D[1]} v7)", f"(+ {D[2]} v7)", f"(+ {D[3]} v7)")
exp = {"a": A, "d": D, "s": S}
for dk in ("d_wh", "d_long"):
    for order in itertools.permutations(["a", dk, "s"]):
        doc = "<svg>" + "".join(els[k] for k in order) + "</svg>"
        def check(r):
            if not r["status"].startswith("ok"): return [("status " + r["status"][:100], "true")]
            q = []
            for e in shapes(r["output"]):
                b = shape_bbox_terms(e); o = exp[e.get("id")]
                q += [(e.get("id") + "." + n, f"(not (= {b[i]} {o[i]}))") for i, n in enumerate(("x1","y1","x2","y2"))]
            return q
        st, _ = explore(R, Z, doc, list(base), check, cap=8)
        print(dk, [k[0] for k in order], "paths", st["paths"], [(n, a, m) for (n, a, m, s) in st["violations"]][:3] or "OK")
