set -e
rm -rf /tmp/probe2/sx && mkdir -p /tmp/probe2/sx && rsync -a --exclude target --exclude .git /repo/ /tmp/probe2/sx/ && cd /tmp/probe2/sx && cp /tmp/probe2/symnum.rs src/symnum.rs && /tmp/probe2/symx/target/debug/symx crate $(ls src/*.rs | grep -v "symnum.rs\|cli.rs\|server.rs") && /tmp/probe2/symx/target/debug/symx svgdx tests/integration_tests/*.rs && python3 - <<'PY'
p='/tmp/probe2/sx/src/lib.rs'
s=open(p).read()
s=s.replace('mod types ;','mod types ; pub mod symnum ;',1)
assert 'pub mod symnum' in s
open(p,'w').write(s)
p='/tmp/probe2/sx/src/types.rs'
s=open(p).read()
s=s.replace('pub fn fstr (x : crate :: symnum :: Sx) -> String {','pub fn fstr (x : crate :: symnum :: Sx) -> String { if ! x . is_concrete () { return crate :: symnum :: fstr_sym (x) ; }',1)
assert 'fstr_sym' in s
open(p,'w').write(s)
PY
rustfmt --edition 2021 src/*.rs tests/integration_tests/*.rs 2>&1 | tail -3
