// PROTOTYPE runner. Protocol (stdin, repeated):  "RUN <nvars> <doclen>\n" then nvars lines "val lo hi shift" then doclen bytes of document
// with placeholders {v0} {v1} ...   Output: "BEGIN\n" STATUS line, OUTPUT <len>\n<bytes>\n, dump lines, "END\n"
use std::io::{BufRead, Read, Write};
use svgdx::symnum::{self, Sx};
fn main() {
    let stdin = std::io::stdin();
    let mut inp = stdin.lock();
    let out = std::io::stdout();
    std::panic::set_hook(Box::new(|_| {}));
    loop {
        let mut line = String::new();
        if inp.read_line(&mut line).unwrap() == 0 { break; }
        let parts: Vec<&str> = line.split_whitespace().collect();
        if parts.len() != 3 || parts[0] != "RUN" { continue; }
        let n: usize = parts[1].parse().unwrap();
        let len: usize = parts[2].parse().unwrap();
        symnum::reset();
        let mut toks = vec![];
        for _ in 0..n {
            let mut l = String::new();
            inp.read_line(&mut l).unwrap();
            let f: Vec<f64> = l.split_whitespace().map(|x| x.parse().unwrap()).collect();
            toks.push(Sx::var_dom(f[0] as f32, f[1], f[2], f[3] as i32).token());
        }
        let mut buf = vec![0u8; len];
        inp.read_exact(&mut buf).unwrap();
        let mut doc = String::from_utf8(buf).unwrap();
        for (k, t) in toks.iter().enumerate() { doc = doc.replace(&format!("{{v{k}}}"), t); }
        let res = std::panic::catch_unwind(|| svgdx::transform_str_default(doc));
        let mut o = out.lock();
        writeln!(o, "BEGIN").unwrap();
        match res {
            Ok(Ok(s)) => { writeln!(o, "STATUS ok").unwrap(); writeln!(o, "OUTPUT {}", s.len()).unwrap(); o.write_all(s.as_bytes()).unwrap(); writeln!(o).unwrap(); }
            Ok(Err(e)) => { let m = e.to_string().replace('\n', " | "); writeln!(o, "STATUS err {m}").unwrap(); }
            Err(_) => { writeln!(o, "STATUS panic").unwrap(); }
        }
        write!(o, "{}", symnum::dump()).unwrap();
        writeln!(o, "END").unwrap();
        o.flush().unwrap();
    }
}
