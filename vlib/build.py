"""Build step of the SX engine: copy /repo's current working tree to a scratch directory, rewrite f32 -> Sx with
tools/symx, build the sxrun runner and (self-test) the repository's own tests on the rewritten crate, and build the
native replay runner against the unmodified /repo.  Results are cached under /verif/.cache keyed by a content hash of
/repo's sources and of the engine's own sources, so that every change of the tree triggers a rebuild."""
import fcntl, hashlib, json, os, shutil, subprocess, sys, tempfile, time

VERIF = os.path.dirname(os.path.dirname(os.path.abspath(__file__)))
REPO = os.environ.get("VERIF_REPO", "/repo")
CACHE = os.path.join(VERIF, ".cache")
ENV = dict(os.environ, CARGO_NET_OFFLINE="true", CARGO_TERM_COLOR="never")
ENV.pop("RUSTFLAGS", None)


def _files(root, sub, exts):
    out = []
    base = os.path.join(root, sub)
    if os.path.isfile(base):
        return [base]
    for d, dirs, fs in os.walk(base):
        dirs[:] = sorted(x for x in dirs if x not in ("target", ".git"))
        for f in sorted(fs):
            if f.endswith(exts):
                out.append(os.path.join(d, f))
    return out


def tree_hash():
    h = hashlib.sha256()
    fl = []
    fl += _files(REPO, "src", (".rs",))
    fl += _files(REPO, "tests", (".rs", ".xml", ".svg"))
    fl += [os.path.join(REPO, "Cargo.toml"), os.path.join(REPO, "Cargo.lock")]
    fl += _files(VERIF, "sx", (".rs",))
    fl += _files(VERIF, "tools/symx/src", (".rs",))
    fl += _files(VERIF, "tools/nativerun", (".rs", ".in"))
    for f in fl:
        if os.path.exists(f):
            h.update(f.encode())
            with open(f, "rb") as fh:
                h.update(hashlib.sha256(fh.read()).digest())
    return h.hexdigest()[:20]


def _run(cmd, cwd, env=None, log=None, timeout=1800):
    p = subprocess.run(cmd, cwd=cwd, env=env or ENV, stdout=subprocess.PIPE, stderr=subprocess.STDOUT, text=True, timeout=timeout)
    if log is not None:
        log.append("$ " + " ".join(cmd) + "\n" + p.stdout[-6000:])
    return p.returncode, p.stdout


def symx_bin():
    b = os.path.join(VERIF, "tools/symx/target/release/symx")
    src = os.path.join(VERIF, "tools/symx/src/main.rs")
    if not os.path.exists(b) or os.path.getmtime(b) < os.path.getmtime(src):
        rc, out = _run(["cargo", "build", "--release", "--offline"], os.path.join(VERIF, "tools/symx"))
        if rc != 0:
            raise BuildError("symx build failed:\n" + out[-3000:])
    return b


class BuildError(Exception):
    pass


def _prune(keep):
    bdir = os.path.join(CACHE, "bin")
    if not os.path.isdir(bdir):
        return
    ents = sorted((os.path.getmtime(os.path.join(bdir, d)), d) for d in os.listdir(bdir))
    for _, d in ents[:-4]:
        if d != keep:
            shutil.rmtree(os.path.join(bdir, d), ignore_errors=True)


def ensure_built(want_tests="lib", want_release=False, verbose=True):
    """returns dict(sxrun, native, native_release?, selftest, hash, build_s).  want_tests in (None, 'lib', 'all')"""
    os.makedirs(CACHE, exist_ok=True)
    t0 = time.time()
    with open(os.path.join(CACHE, "build.lock"), "w") as lk:
        fcntl.flock(lk, fcntl.LOCK_EX)
        h = tree_hash()
        bdir = os.path.join(CACHE, "bin", h)
        metaf = os.path.join(bdir, "meta.json")
        meta = {}
        if os.path.exists(metaf):
            meta = json.load(open(metaf))
        need_build = not (meta.get("sxrun") and os.path.exists(meta["sxrun"]) and os.path.exists(meta.get("native", "/nonexistent")))
        need_tests = {None: False, "lib": meta.get("selftest", {}).get("lib") is None, "all": meta.get("selftest", {}).get("all") is None}[want_tests]
        need_rel = want_release and not os.path.exists(meta.get("native_release", "/nonexistent"))
        if need_build or need_tests or need_rel:
            os.makedirs(bdir, exist_ok=True)
            log = []
            scratch = tempfile.mkdtemp(prefix="svgdx-sx-")
            try:
                _build(scratch, bdir, meta, need_build, want_tests if need_tests else None, need_rel, log, verbose)
            finally:
                shutil.rmtree(scratch, ignore_errors=True)
                with open(os.path.join(bdir, "build.log"), "a") as f:
                    f.write("\n".join(log))
            meta["hash"] = h
            json.dump(meta, open(metaf, "w"), indent=1)
            _prune(h)
        os.utime(bdir)
        meta["build_s"] = round(time.time() - t0, 1)
        return meta


def _build(scratch, bdir, meta, need_build, tests, need_rel, log, verbose):
    def say(s):
        if verbose:
            print("[build] " + s, file=sys.stderr, flush=True)
    sx = os.path.join(scratch, "sx")
    if need_build or tests:
        say("copy + rewrite of %s" % REPO)
        os.makedirs(sx)
        for item in ("src", "tests", "Cargo.toml", "Cargo.lock"):
            s = os.path.join(REPO, item)
            if os.path.isdir(s):
                shutil.copytree(s, os.path.join(sx, item))
            elif os.path.exists(s):
                shutil.copy(s, os.path.join(sx, item))
        shutil.copy(os.path.join(VERIF, "sx/symnum.rs"), os.path.join(sx, "src/symnum.rs"))
        os.makedirs(os.path.join(sx, "examples"), exist_ok=True)
        shutil.copy(os.path.join(VERIF, "sx/sxrun.rs"), os.path.join(sx, "examples/sxrun.rs"))
        libfiles = [f for f in _files(sx, "src", (".rs",)) if os.path.basename(f) not in ("symnum.rs", "cli.rs", "server.rs") and "/bin/" not in f]
        rc, out = _run([symx_bin(), "crate", "lib"] + libfiles, sx, log=log)
        if rc != 0:
            raise BuildError("rewrite (lib) failed:\n" + out[-3000:])
        testfiles = _files(sx, "tests", (".rs",))
        if testfiles:
            rc, out = _run([symx_bin(), "svgdx", "tests"] + testfiles, sx, log=log)
            if rc != 0:
                raise BuildError("rewrite (tests) failed:\n" + out[-3000:])
        env = dict(ENV, CARGO_TARGET_DIR=os.path.join(CACHE, "target-sx"))
        if need_build:
            say("cargo build (rewritten crate + sxrun)")
            rc, out = _run(["cargo", "build", "--offline", "--no-default-features", "--example", "sxrun"], sx, env=env, log=log)
            if rc != 0:
                raise BuildError("build of the rewritten crate failed:\n" + out[-4000:])
            shutil.copy(os.path.join(CACHE, "target-sx/debug/examples/sxrun"), os.path.join(bdir, "sxrun"))
            meta["sxrun"] = os.path.join(bdir, "sxrun")
        if tests:
            say("self-test: repository tests on the rewritten crate (%s)" % tests)
            cmd = ["cargo", "test", "--offline", "--no-default-features"] + (["--lib"] if tests == "lib" else [])
            rc, out = _run(cmd, sx, env=env, log=log)
            import re
            passed = sum(int(m.group(1)) for m in re.finditer(r"test result: \w+\. (\d+) passed", out))
            failed = sum(int(m.group(1)) for m in re.finditer(r"test result: \w+\. \d+ passed; (\d+) failed", out))
            st = meta.setdefault("selftest", {})
            st[tests] = {"rc": rc, "passed": passed, "failed": failed, "failed_names": re.findall(r"^test (\S+) \.\.\. FAILED", out, re.M)[:20]}
            if tests == "all":
                st.setdefault("lib", st["all"])
    if need_build or need_rel:
        nat = os.path.join(scratch, "native")
        os.makedirs(os.path.join(nat, "src"))
        shutil.copy(os.path.join(VERIF, "tools/nativerun/src/main.rs"), os.path.join(nat, "src/main.rs"))
        open(os.path.join(nat, "Cargo.toml"), "w").write(open(os.path.join(VERIF, "tools/nativerun/Cargo.toml.in")).read().replace("@REPO@", REPO))
        shutil.copy(os.path.join(REPO, "Cargo.lock"), os.path.join(nat, "Cargo.lock"))
        env = dict(ENV, CARGO_TARGET_DIR=os.path.join(CACHE, "target-native"))
        if need_build:
            say("cargo build (native replay runner against unmodified %s)" % REPO)
            rc, out = _run(["cargo", "build", "--offline"], nat, env=env, log=log)
            if rc != 0:
                raise BuildError("build of the native runner failed:\n" + out[-4000:])
            shutil.copy(os.path.join(CACHE, "target-native/debug/nativerun"), os.path.join(bdir, "nativerun"))
            meta["native"] = os.path.join(bdir, "nativerun")
        if need_rel:
            say("cargo build --release (native replay runner)")
            rc, out = _run(["cargo", "build", "--offline", "--release"], nat, env=env, log=log)
            if rc != 0:
                raise BuildError("release build of the native runner failed:\n" + out[-4000:])
            shutil.copy(os.path.join(CACHE, "target-native/release/nativerun"), os.path.join(bdir, "nativerun-release"))
            meta["native_release"] = os.path.join(bdir, "nativerun-release")


if __name__ == "__main__":
    m = ensure_built(sys.argv[1] if len(sys.argv) > 1 else "lib", want_release="release" in sys.argv)
    print(json.dumps(m, indent=1))
