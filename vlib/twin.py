"""comparison of two output documents produced in one engine session (translation validation of twins)"""
import re
from .engine import *  # noqa
from . import geom as G

NUMLIST_ATTRS = {"points", "viewBox", "d", "transform"}
NUM_TOKEN = re.compile(r"-?(?:8888\d{6}\.5|\d+(?:\.\d+)?(?:[eE][-+]?\d+)?)")


def split_numeric(o, value):
    """value -> (skeleton string with numbers replaced by #, [smt terms])"""
    terms = []

    def rep(m):
        terms.append(o.tok(m.group(0)))
        return "#"
    skel = NUM_TOKEN.sub(rep, value)
    return skel, terms


def compare_outputs(o1, o2, prefix="", wrong=False, ignore_attrs=(), skip_root=False, ground_tol=None):
    """obligations stating that two parsed outputs are the same document: same element sequence, same attribute names,
    same non-numeric text, and every number equal as a term for all values"""
    obls = []
    e1 = [e for e in o1.all if not (skip_root and e is o1.root)]
    e2 = [e for e in o2.all if not (skip_root and e is o2.root)]
    t1, t2 = [o1.tag(e) for e in e1], [o2.tag(e) for e in e2]
    if t1 != t2:
        return [Obl(prefix + "same-element-sequence", FAIL, ground=True, note=f"{t1} vs {t2}")]
    obls.append(Obl(prefix + "same-element-sequence", PASS, ground=True))
    flipped = False
    for i, (a, b) in enumerate(zip(e1, e2)):
        tag = t1[i]
        an = sorted(k for k in a.attrib if k not in ignore_attrs)
        bn = sorted(k for k in b.attrib if k not in ignore_attrs)
        if an != bn:
            obls.append(Obl(f"{prefix}{tag}[{i}]-same-attributes", FAIL, ground=True, note=f"{an} vs {bn}"))
            continue
        for k in an:
            va, vb = a.get(k), b.get(k)
            if k == "class":
                same = sorted(va.split()) == sorted(vb.split())
                obls.append(Obl(f"{prefix}{tag}[{i}].class", PASS if same else FAIL, ground=True, note=f"{va!r} vs {vb!r}"))
                continue
            sa, ta = split_numeric(o1, va)
            sb, tb = split_numeric(o2, vb)
            if sa != sb or len(ta) != len(tb):
                obls.append(Obl(f"{prefix}{tag}[{i}].{k}", FAIL, ground=True, note=f"{va!r} vs {vb!r}"))
                continue
            if not ta:
                obls.append(Obl(f"{prefix}{tag}[{i}].{k}", PASS, ground=True))
                continue
            for j, (x, y) in enumerate(zip(ta, tb)):
                if x == y and not term_refs(x):
                    obls.append(Obl(f"{prefix}{tag}[{i}].{k}", PASS, ground=True))
                    continue
                if ground_tol is not None and not term_refs(x) and not term_refs(y):
                    # two concrete numbers: equal up to the stated output rounding
                    obls.append(Obl(f"{prefix}{tag}[{i}].{k}", not_(near(x, y, ground_tol)), ground=True, note=f"{va!r} vs {vb!r}"))
                    continue
                if wrong and not flipped and term_refs(x):
                    y = plus(y, "1.0")
                    flipped = True
                obls.append(Obl(f"{prefix}{tag}[{i}].{k}" + (f"[{j}]" if len(ta) > 1 else ""), ne(x, y)))
        xa, xb = (a.text or "").strip(), (b.text or "").strip()
        if xa or xb:
            sa, ta = split_numeric(o1, xa)
            sb, tb = split_numeric(o2, xb)
            if sa != sb or len(ta) != len(tb):
                obls.append(Obl(f"{prefix}{tag}[{i}].text", FAIL, ground=True, note=f"{xa!r} vs {xb!r}"))
            else:
                for x, y in zip(ta, tb):
                    obls.append(Obl(f"{prefix}{tag}[{i}].text-number", ne(x, y)))
                if not ta:
                    obls.append(Obl(f"{prefix}{tag}[{i}].text", PASS, ground=True))
        # character data following the element (inside its parent): e.g. text after a child element or after a comment
        ya, yb = " ".join((a.tail or "").split()), " ".join((b.tail or "").split())
        if ya or yb:
            obls.append(Obl(f"{prefix}{tag}[{i}].following-text", PASS if ya == yb else FAIL, ground=True, note=f"{ya!r} vs {yb!r}"))
    return obls
