"""Reference geometry over SMT terms: bounding boxes of OUTPUT elements recomputed from their native attributes
(DESIGN.md Appendix A), locations, scalars.  Everything here is written from the property statements / SVG
semantics, not from the implementation."""
import re
from fractions import Fraction
from .engine import *  # noqa


class Box:
    __slots__ = ("x1", "y1", "x2", "y2")

    def __init__(self, x1, y1, x2, y2):
        self.x1, self.y1, self.x2, self.y2 = x1, y1, x2, y2

    @property
    def w(self):
        return minus(self.x2, self.x1)

    @property
    def h(self):
        return minus(self.y2, self.y1)

    @property
    def cx(self):
        return half(plus(self.x1, self.x2))

    @property
    def cy(self):
        return half(plus(self.y1, self.y2))

    def tup(self):
        return (self.x1, self.y1, self.x2, self.y2)

    def loc(self, name):
        """nine named locations"""
        xs = {"l": self.x1, "c": self.cx, "r": self.x2}
        ys = {"t": self.y1, "c": self.cy, "b": self.y2}
        table = {"tl": ("l", "t"), "t": ("c", "t"), "tr": ("r", "t"), "r": ("r", "c"), "br": ("r", "b"), "b": ("c", "b"), "bl": ("l", "b"), "l": ("l", "c"), "c": ("c", "c")}
        a, b = table[name]
        return xs[a], ys[b]

    def edge(self, name, off, pct=False):
        """edge location with offset: t/b run from x1 to x2, l/r from y1 to y2.
        pct: off is a ratio (python Fraction) -> start + ratio*(end-start);
        else off is an SMT term: >=0 from the start, <0 back from the end"""
        if name in ("t", "b"):
            s, e = self.x1, self.x2
        else:
            s, e = self.y1, self.y2
        if pct:
            p = plus(s, mul(num(off), minus(e, s)))
        else:
            p = ite(ge(off, "0.0"), plus(s, off), plus(e, off))
        return {"t": (p, self.y1), "b": (p, self.y2), "l": (self.x1, p), "r": (self.x2, p)}[name]

    def scalar(self, k):
        return {"x": self.x1, "x1": self.x1, "x2": self.x2, "cx": self.cx, "y": self.y1, "y1": self.y1, "y2": self.y2, "cy": self.cy,
                "w": self.w, "width": self.w, "h": self.h, "height": self.h, "rx": half(self.w), "ry": half(self.h),
                "r": half(rmax(self.w, self.h))}[k]

    def translate(self, dx, dy):
        return Box(plus(self.x1, dx), plus(self.y1, dy), plus(self.x2, dx), plus(self.y2, dy))

    def grow(self, t, r, b, l):
        return Box(minus(self.x1, l), minus(self.y1, t), plus(self.x2, r), plus(self.y2, b))

    def eq(self, o):
        return and_(eq(self.x1, o.x1), eq(self.y1, o.y1), eq(self.x2, o.x2), eq(self.y2, o.y2))

    def near(self, o, tol):
        return and_(near(self.x1, o.x1, tol), near(self.y1, o.y1, tol), near(self.x2, o.x2, tol), near(self.y2, o.y2, tol))


def union(boxes):
    boxes = list(boxes)
    return Box(rmin(*[b.x1 for b in boxes]), rmin(*[b.y1 for b in boxes]), rmax(*[b.x2 for b in boxes]), rmax(*[b.y2 for b in boxes]))


def intersection(boxes):
    boxes = list(boxes)
    return Box(rmax(*[b.x1 for b in boxes]), rmax(*[b.y1 for b in boxes]), rmin(*[b.x2 for b in boxes]), rmin(*[b.y2 for b in boxes]))


NUM_RE = r"-?(?:8888\d{6}\.5|\d+(?:\.\d+)?)"


def parse_transform(out, s):
    """list of (kind, [smt args]) for a transform attribute, in source order"""
    res = []
    for m in re.finditer(r"(\w+)\s*\(([^)]*)\)", s or ""):
        args = [out.tok(x) for x in re.split(r"[\s,]+", m.group(2).strip()) if x]
        res.append((m.group(1), args))
    return res


def apply_transform(out, box, s):
    """translate/scale applied right-to-left to a box (other kinds are outside the templates)"""
    for kind, a in reversed(parse_transform(out, s)):
        if kind == "translate":
            tx = a[0]
            ty = a[1] if len(a) > 1 else "0.0"
            box = box.translate(tx, ty)
        elif kind == "scale":
            sx = a[0]
            sy = a[1] if len(a) > 1 else a[0]
            xs = [mul(box.x1, sx), mul(box.x2, sx)]
            ys = [mul(box.y1, sy), mul(box.y2, sy)]
            box = Box(rmin(*xs), rmin(*ys), rmax(*xs), rmax(*ys))
        else:
            raise ValueError("transform kind outside the reference model: " + kind)
    return box


def path_box(out, d):
    """bbox of path data over its on-curve points (the end point of every segment; control points and the bulge of arcs
    are not part of the extent as svgdx defines it), all SVG path commands"""
    toks = re.findall(r"[MmLlHhVvZzCcSsQqTtAa]|" + NUM_RE, d)
    i = 0
    cx, cy = "0.0", "0.0"
    sx, sy = "0.0", "0.0"
    xs, ys = [], []
    cmd = None
    while i < len(toks):
        t = toks[i]
        if re.fullmatch(r"[A-Za-z]", t):
            cmd = t
            i += 1
            if cmd in "Zz":
                cx, cy = sx, sy
            continue
        if cmd in "MmLl":
            a, b = out.tok(toks[i]), out.tok(toks[i + 1])
            i += 2
            if cmd.islower():
                cx, cy = plus(cx, a), plus(cy, b)
            else:
                cx, cy = a, b
            if cmd in "Mm":
                sx, sy = cx, cy
                cmd = "l" if cmd == "m" else "L"
        elif cmd in "Hh":
            a = out.tok(toks[i])
            i += 1
            cx = plus(cx, a) if cmd == "h" else a
        elif cmd in "Vv":
            a = out.tok(toks[i])
            i += 1
            cy = plus(cy, a) if cmd == "v" else a
        elif cmd in "CcSsQqTtAa":
            # number of parameters before the end point: C 4, S 2, Q 2, T 0, A 5
            skip = {"c": 4, "s": 2, "q": 2, "t": 0, "a": 5}[cmd.lower()]
            a, b = out.tok(toks[i + skip]), out.tok(toks[i + skip + 1])
            i += skip + 2
            if cmd.islower():
                cx, cy = plus(cx, a), plus(cy, b)
            else:
                cx, cy = a, b
        else:
            raise ValueError("path command outside the reference model: " + str(cmd))
        xs.append(cx)
        ys.append(cy)
    return Box(rmin(*xs), rmin(*ys), rmax(*xs), rmax(*ys))


def elem_box(out, el, with_transform=True):
    """bounding box of an output element from its own native geometry (None when it has none)"""
    tag = out.tag(el)
    b = None
    if tag in ("rect", "image", "foreignObject", "svg"):
        x, y = out.num(el, "x"), out.num(el, "y")
        w, h = out.num(el, "width", None), out.num(el, "height", None)
        b = Box(x, y, plus(x, w), plus(y, h))
    elif tag == "circle":
        cx, cy, r = out.num(el, "cx"), out.num(el, "cy"), out.num(el, "r", None)
        b = Box(minus(cx, r), minus(cy, r), plus(cx, r), plus(cy, r))
    elif tag == "ellipse":
        cx, cy, rx, ry = out.num(el, "cx"), out.num(el, "cy"), out.num(el, "rx", None), out.num(el, "ry", None)
        b = Box(minus(cx, rx), minus(cy, ry), plus(cx, rx), plus(cy, ry))
    elif tag == "line":
        a, b_, c, d = out.num(el, "x1"), out.num(el, "y1"), out.num(el, "x2"), out.num(el, "y2")
        b = Box(rmin(a, c), rmin(b_, d), rmax(a, c), rmax(b_, d))
    elif tag in ("polyline", "polygon"):
        p = out.nums(el, "points")
        xs, ys = p[0::2], p[1::2]
        b = Box(rmin(*xs), rmin(*ys), rmax(*xs), rmax(*ys))
    elif tag == "path":
        b = path_box(out, el.get("d"))
    elif tag == "text":
        x, y = out.num(el, "x"), out.num(el, "y")
        b = Box(x, y, x, y)
    elif tag == "g":
        kids = [elem_box(out, c) for c in out.children(el)]
        kids = [k for k in kids if k is not None]
        if kids:
            b = union(kids)
    else:
        return None
    if b is not None and with_transform and el.get("transform"):
        b = apply_transform(out, b, el.get("transform"))
    return b


GEOM_ATTRS = {"x", "y", "x1", "y1", "x2", "y2", "cx", "cy", "r", "rx", "ry", "width", "height", "xy", "cxy", "xy1", "xy2", "wh", "rxy", "dxy", "dwh",
              "dx", "dy", "dw", "dh", "xy-loc", "points", "d", "transform"}
NATIVE = {"rect": {"x", "y", "width", "height", "rx", "ry"}, "circle": {"cx", "cy", "r"}, "ellipse": {"cx", "cy", "rx", "ry"}, "line": {"x1", "y1", "x2", "y2"},
          "polyline": {"points"}, "polygon": {"points"}, "path": {"d"}, "text": {"x", "y", "dx", "dy"}, "tspan": {"x", "y", "dx", "dy"}, "g": {"transform"},
          "use": {"x", "y", "width", "height"}, "image": {"x", "y", "width", "height"}}
SVGDX_ONLY = {"xy", "cxy", "xy1", "xy2", "wh", "rxy", "dxy", "dwh", "dw", "dh", "xy-loc", "surround", "inside", "margin", "start", "end", "edge-type", "corner-offset",
              "text", "text-loc", "text-offset", "text-dx", "text-dy", "text-dxy", "text-lsp", "text-pre"}


def foreign_geom_attrs(out, el):
    """geometry-looking attributes an output element must not carry"""
    tag = out.tag(el)
    native = NATIVE.get(tag, set())
    bad = []
    for a in el.attrib:
        if a in SVGDX_ONLY:
            bad.append(a)
        elif a in GEOM_ATTRS and a not in native and a != "transform":
            bad.append(a)
    return bad
