"""SX engine driver: runner protocol, SMT emission, solver pipes, concolic path exploration, verdicts, native replay.
See /verif/DESIGN.md §3."""
import os, re, select, struct, subprocess, sys, time, json, hashlib
from fractions import Fraction
import xml.etree.ElementTree as ET

TOK = re.compile(r"8888(\d{6})\.5")
TOK_FULL = re.compile(r"^-?8888(\d{6})\.5$")
Z3 = os.environ.get("VERIF_Z3", "/usr/bin/z3")
CVC5 = os.environ.get("VERIF_CVC5", "/usr/bin/cvc5")


# ----------------------------------------------------------------------------------------------- numbers
def f32_from_bits(b):
    return struct.unpack(">f", struct.pack(">I", b))[0]


def frac_str(fr):
    """exact decimal rendering of a dyadic rational (what a user would type)"""
    fr = Fraction(fr)
    if fr.denominator == 1:
        return str(fr.numerator)
    d = fr.denominator
    if d & (d - 1) == 0:
        k = d.bit_length() - 1
        n = fr.numerator * 5 ** k
        s = str(abs(n)).rjust(k + 1, "0")
        s = s[:-k] + "." + s[-k:]
        s = s.rstrip("0").rstrip(".")
        return ("-" if fr < 0 else "") + s
    return repr(float(fr))


def fstr_py(v):
    """python twin of svgdx types::fstr for an f32 value given as python float"""
    if v != v or v in (float("inf"), float("-inf")):
        return {True: "NaN"}.get(v != v, "inf" if v > 0 else "-inf")
    if abs(v) < 0.0001:
        return "0"
    iv = int(v)
    if -2147483648 <= iv <= 2147483647 and float(iv) == v:
        return str(iv)
    s = "%.3f" % v
    return s.rstrip("0").rstrip(".")


def num(x):
    """SMT literal (Real) of a rational"""
    fr = Fraction(x)
    if fr.denominator == 1:
        t = f"{abs(fr.numerator)}.0"
    else:
        t = f"(/ {abs(fr.numerator)}.0 {fr.denominator}.0)"
    return f"(- {t})" if fr < 0 else t


def const_smt(bits):
    return num(Fraction(f32_from_bits(bits)))


PRELUDE = """(define-fun rmin ((a Real) (b Real)) Real (ite (<= a b) a b))
(define-fun rmax ((a Real) (b Real)) Real (ite (>= a b) a b))
(define-fun rabs ((a Real)) Real (ite (>= a 0.0) a (- a)))
(define-fun rfloor ((a Real)) Real (to_real (to_int a)))
(define-fun rceil ((a Real)) Real (- (to_real (to_int (- a)))))
(define-fun rtrunc ((a Real)) Real (ite (>= a 0.0) (rfloor a) (rceil a)))
(define-fun rround ((a Real)) Real (ite (>= a 0.0) (rfloor (+ a 0.5)) (rceil (- a 0.5))))
(define-fun near ((a Real) (b Real) (tol Real)) Bool (and (<= (- a b) tol) (<= (- b a) tol)))
(define-fun reuclid ((x Real) (n Real)) Real (- x (* (rabs n) (rfloor (/ x (rabs n))))))
(declare-fun fadd (Real Real) Real)
(declare-fun fsub (Real Real) Real)
(declare-fun fmul (Real Real) Real)
(declare-fun fdiv (Real Real) Real)
(declare-fun fneg (Real) Real)
(declare-fun ifloor (Real) Int)
(declare-fun iceil (Real) Int)
(declare-fun iround (Real) Int)
(declare-fun itrunc (Real) Int)
(define-fun ufloor ((x Real)) Real (to_real (ifloor x)))
(define-fun uceil ((x Real)) Real (to_real (iceil x)))
(define-fun uround ((x Real)) Real (to_real (iround x)))
(define-fun utrunc ((x Real)) Real (to_real (itrunc x)))
(declare-fun fun1 (Int Real) Real)
(declare-fun fun2 (Int Real Real) Real)
"""


# ----------------------------------------------------------------------------------------------- runner
class RunResult:
    __slots__ = ("docs", "terms", "path", "vars", "fstr", "symfns", "concretized", "token_damage", "steps", "native", "died", "offgrid")

    def __init__(self):
        self.docs = []      # list of dict(status, msg, output)
        self.terms = {}     # id -> (exact 'E'/'I', grain or None, valbits, op, args)
        self.path = []      # (taken, op, a, b, doc, fn)
        self.vars = []      # (lo, hi, shift, value)
        self.fstr = []
        self.symfns = []
        self.concretized = 0
        self.token_damage = 0
        self.steps = 0
        self.native = False
        self.died = False
        self.offgrid = 0

    @property
    def status(self):
        return self.docs[0]["status"] if self.docs else "abort"

    @property
    def output(self):
        return self.docs[0].get("output") if self.docs else None

    def val(self, tid):
        return f32_from_bits(self.terms[tid][2])


class LineProc:
    """child process with binary pipes, own read buffer and deadline-aware reads"""

    def __init__(self, cmd, stderr=subprocess.DEVNULL):
        self.p = subprocess.Popen(cmd, stdin=subprocess.PIPE, stdout=subprocess.PIPE, stderr=stderr, bufsize=0)
        self.fd = self.p.stdout.fileno()
        self.buf = b""
        self.eof = False

    def alive(self):
        return self.p.poll() is None and not self.eof

    def write(self, data, deadline=None):
        """write all of data; with a deadline, a child that stops reading (busy for ever on an earlier command) raises
        TimeoutError instead of blocking the caller for ever"""
        mv = memoryview(data)
        fd = self.p.stdin.fileno()
        while len(mv):
            if deadline is not None:
                left = deadline - time.time()
                if left <= 0:
                    raise TimeoutError("child does not read its input")
                _, w, _ = select.select([], [fd], [], min(left, 1.0))
                if not w:
                    continue
                n = os.write(fd, mv[:4096])      # (PIPE_BUF-sized pieces never block once the pipe is writable)
            else:
                n = os.write(fd, mv[:65536])
            mv = mv[n:]

    def _fill(self, deadline):
        left = deadline - time.time()
        if left <= 0:
            return False
        r, _, _ = select.select([self.fd], [], [], min(left, 1.0))
        if r:
            chunk = os.read(self.fd, 1 << 16)
            if chunk == b"":
                self.eof = True
                return False
            self.buf += chunk
        return True

    def readline(self, deadline):
        """returns a line (bytes, without newline) or None on EOF/timeout"""
        while b"\n" not in self.buf:
            if not self._fill(deadline):
                if self.eof or time.time() >= deadline:
                    return None
        i = self.buf.index(b"\n")
        line, self.buf = self.buf[:i], self.buf[i + 1:]
        return line

    def readn(self, n, deadline):
        while len(self.buf) < n:
            if not self._fill(deadline):
                if self.eof or time.time() >= deadline:
                    return None
        data, self.buf = self.buf[:n], self.buf[n:]
        return data

    def kill(self):
        try:
            self.p.kill()
            self.p.wait(timeout=5)
        except Exception:
            pass
        for f in (self.p.stdin, self.p.stdout, self.p.stderr):
            try:
                if f:
                    f.close()
            except Exception:
                pass


class Runner:
    def __init__(self, binpath, native=False, timeout=30.0):
        self.bin = binpath
        self.native = native
        self.timeout = timeout
        self.lp = None
        self.runs = 0

    def close(self):
        if self.lp:
            self.lp.kill()
            self.lp = None

    def run(self, docs, vars_=(), budget=3000000, flags="-"):
        """docs: list of document strings with [[k]] placeholders (sx) or concrete (native);
        vars_: list of (value, lo, hi, shift)"""
        if self.lp is None or not self.lp.alive():
            self.close()
            self.lp = LineProc([self.bin])
        self.runs += 1
        msg = f"RUN {len(vars_)} {len(docs)} {budget} {flags}\n".encode()
        for (val, lo, hi, sh) in vars_:
            msg += f"{float(val)!r} {float(lo)!r} {float(hi)!r} {sh}\n".encode()
        for d in docs:
            b = d.encode()
            msg += f"DOC {len(b)}\n".encode() + b
        r = RunResult()
        r.native = self.native
        try:
            self.lp.write(msg)
            ok = self._collect(r)
        except (BrokenPipeError, OSError):
            ok = False
        if not ok:
            r.died = True
            self.close()
            while len(r.docs) < len(docs):
                r.docs.append({"status": "abort", "msg": "runner process died or timed out (crash, stack overflow or hang)", "output": None})
        return r

    def _collect(self, r):
        lp = self.lp
        deadline = time.time() + self.timeout
        line = lp.readline(deadline)
        if line is None or line.strip() != b"BEGIN":
            return False
        while True:
            line = lp.readline(deadline)
            if line is None:
                return False
            line = line.decode()
            if line == "END":
                return True
            tag = line.split(" ", 1)[0]
            if tag == "DOCRESULT":
                f = line.split(" ", 3)
                r.docs.append({"status": f[2], "msg": f[3] if len(f) > 3 else "", "output": None})
            elif tag == "OUTPUT":
                n = int(line.split()[1])
                buf = lp.readn(n + 1, deadline)
                if buf is None:
                    return False
                r.docs[-1]["output"] = buf[:n].decode()
            elif tag == "VAR":
                _, k, lo, hi, sh, v = line.split()
                r.vars.append((float(lo), float(hi), int(sh), float(v)))
            elif tag == "TERM":
                f = line.split()
                r.terms[int(f[1])] = (f[2], None if f[3] == "-" else int(f[3]), int(f[4]), f[5], f[6:])
            elif tag == "PATH":
                f = line.split()
                r.path.append((f[1] == "1", f[2], int(f[3]), int(f[4]), int(f[5]), f[6] if len(f) > 6 else "?"))
            elif tag == "FSTR":
                r.fstr.append(int(line.split()[1]))
            elif tag == "SYMFN":
                r.symfns.append(line.split(" ", 1)[1])
            elif tag == "CONCRETIZED":
                r.concretized = int(line.split()[1])
            elif tag == "TOKEN_DAMAGE":
                r.token_damage = int(line.split()[1])
            elif tag == "STEPS":
                r.steps = int(line.split()[1])


# ----------------------------------------------------------------------------------------------- solver
def parse_sexp(txt):
    toks = re.findall(r"\(|\)|[^\s()]+", txt)
    pos = 0

    def rd():
        nonlocal pos
        t = toks[pos]
        pos += 1
        if t == "(":
            l = []
            while toks[pos] != ")":
                l.append(rd())
            pos += 1
            return l
        return t
    return rd()


def sexp_num(s):
    if isinstance(s, str):
        return Fraction(s.rstrip("?"))
    if s[0] == "-" and len(s) == 2:
        return -sexp_num(s[1])
    if s[0] == "-" and len(s) == 3:
        return sexp_num(s[1]) - sexp_num(s[2])
    if s[0] == "/":
        return sexp_num(s[1]) / sexp_num(s[2])
    if s[0] == "to_real":
        return sexp_num(s[1])
    raise ValueError("unsupported value " + repr(s))


class Solver:
    """one persistent `z3 -in` (or cvc5 --incremental) process; every query runs between push and pop"""

    def __init__(self, kind="z3", timeout_ms=10000):
        self.kind = kind
        self.timeout_ms = timeout_ms
        self.lp = None
        self.t = 0.0
        self.n = 0
        self.counts = {"sat": 0, "unsat": 0, "unknown": 0, "error": 0}

    def _start(self):
        if self.kind == "z3":
            cmd = [Z3, "-in"]
        else:
            cmd = [CVC5, "--lang", "smt2", "--incremental", "--produce-models", f"--tlimit-per={self.timeout_ms}"]
        self.lp = LineProc(cmd, stderr=subprocess.STDOUT)
        pre = "(set-logic ALL)\n" if self.kind != "z3" else f"(set-option :timeout {self.timeout_ms})\n"
        self.lp.write((pre + PRELUDE).encode())

    def close(self):
        if self.lp:
            self.lp.kill()
            self.lp = None

    def ask(self, smt, want=None):
        """returns (answer, model or None); answer in sat/unsat/unknown/error"""
        if self.lp is None or not self.lp.alive():
            self.close()
            self._start()
        t0 = time.time()
        self.n += 1
        q = "(push 1)\n" + smt + "\n(check-sat)\n"
        try:
            self.lp.write(q.encode(), deadline=time.time() + self.timeout_ms / 1000.0 + 10)
        except TimeoutError:
            self.close()
            self.counts["unknown"] += 1
            return "unknown", None
        except (BrokenPipeError, OSError):
            self.close()
            self.counts["error"] += 1
            return "error", None
        ans = None
        deadline = time.time() + self.timeout_ms / 1000.0 + 10
        saw_error = False
        while True:
            line = self.lp.readline(deadline)
            if line is None:
                timed_out = not self.lp.eof
                self.close()
                ans = "unknown" if timed_out else "error"
                break
            line = line.decode(errors="replace").strip()
            if not line:
                continue
            if line.startswith("(error"):
                saw_error = True
                sys.stderr.write("[solver] " + line[:300] + "\n")
                continue
            if line in ("sat", "unsat", "unknown", "timeout"):
                ans = "unknown" if line == "timeout" else line
                break
        if saw_error and ans in ("sat", "unsat", "unknown"):
            ans = "error"
        model = None
        if ans == "sat" and want and self.lp:
            self.lp.write(("(get-value (%s))\n" % " ".join(want)).encode())
            txt = ""
            depth = 0
            while True:
                l = self.lp.readline(time.time() + 10)
                if l is None:
                    # the solver does not deliver the model (still busy): never leave it running behind the next query
                    self.close()
                    txt = ""
                    break
                l = l.decode(errors="replace")
                txt += l + "\n"
                depth += l.count("(") - l.count(")")
                if depth <= 0 and txt.strip():
                    break
            try:
                sx = parse_sexp(txt)
                model = {}
                for name, v in sx:
                    try:
                        model[name] = sexp_num(v)
                    except Exception:
                        model[name] = None
            except Exception:
                model = None
        if self.lp:
            try:
                self.lp.write(b"(pop 1)\n", deadline=time.time() + 10)
            except (TimeoutError, BrokenPipeError, OSError):
                self.close()
        self.t += time.time() - t0
        self.counts[ans] = self.counts.get(ans, 0) + 1
        return ans, model


# ----------------------------------------------------------------------------------------------- SMT emission
def smt_vars(vars_, mode):
    """vars_: list of (lo, hi, shift, value).  mode 'int': grid; 'real': interval hull; 'free': unconstrained reals"""
    s = ""
    for k, (lo, hi, sh, _v) in enumerate(vars_):
        sc = 2 ** sh
        if mode == "real":
            s += f"(declare-const v{k} Real)\n(assert (and (>= v{k} {num(Fraction(lo))}) (<= v{k} {num(Fraction(hi))})))\n"
        elif mode == "free":
            s += f"(declare-const v{k} Real)\n"
        else:
            ilo, ihi = int(Fraction(lo) * sc), int(Fraction(hi) * sc)
            f = lambda n: f"(- {abs(n)})" if n < 0 else str(n)
            s += f"(declare-const k{k} Int)\n(assert (and (>= k{k} {f(ilo)}) (<= k{k} {f(ihi)})))\n(define-fun v{k} () Real (/ (to_real k{k}) {sc}.0))\n"
    return s


APP_IDS = {}


def app_id(name):
    if name not in APP_IDS:
        APP_IDS[name] = 1 + int(hashlib.sha1(name.encode()).hexdigest()[:6], 16)
    return APP_IDS[name]


def cone(run, roots, cut=()):
    seen = set()
    stack = list(roots)
    while stack:
        i = stack.pop()
        if i in seen or i not in run.terms:
            continue
        seen.add(i)
        if i in cut:
            continue
        ex, g, vb, op, a = run.terms[i]
        if op in ("var", "const"):
            continue
        if op == "app":
            stack.extend(int(x) for x in a[1:])
        else:
            stack.extend(int(x) for x in a)
    return seen


def smt_terms(run, ids, euf=False, cut=(), alias=None):
    """define-funs for the given term ids (must be closed under sub-terms), in id order"""
    s = ""
    t = lambda x: f"t{x}"
    for i in sorted(ids):
        ex, g, vb, op, a = run.terms[i]
        if i in cut:
            if alias and i in alias:
                continue   # emitted after its representative below
            s += f"(declare-const t{i} Real)\n"
            for j, r0 in (alias or {}).items():
                if r0 == i and j in ids:
                    s += f"(define-fun t{j} () Real t{i})\n"
            continue
        if op == "var":
            d = f"v{a[0]}"
        elif op == "const":
            d = const_smt(int(a[0]))
        elif op in ("add", "sub", "mul", "div"):
            if euf:
                d = "(f%s %s %s)" % (op, t(a[0]), t(a[1]))
            elif op == "div" and run.terms[int(a[1])][3] != "const":
                # symbolic divisor: quotient as a fresh constant with the multiplication lemma (keeps the query polynomial)
                s += f"(declare-const t{i} Real)\n(assert (=> (not (= {t(a[1])} 0.0)) (= (* t{i} {t(a[1])}) {t(a[0])})))\n"
                continue
            else:
                d = "(%s %s %s)" % ({"add": "+", "sub": "-", "mul": "*", "div": "/"}[op], t(a[0]), t(a[1]))
        elif op == "neg":
            d = f"(fneg {t(a[0])})" if euf else f"(- {t(a[0])})"
        elif op in ("abs", "floor", "ceil", "round", "trunc"):
            d = f"(fun1 {app_id(op)} {t(a[0])})" if euf else f"(r{op} {t(a[0])})"
        elif op in ("min", "max"):
            d = f"(fun2 {app_id(op)} {t(a[0])} {t(a[1])})" if euf else f"(r{op} {t(a[0])} {t(a[1])})"
        elif op == "app":
            name, args = a[0], a[1:]
            if len(args) == 1:
                d = f"(fun1 {app_id(name)} {t(args[0])})"
            elif len(args) == 2:
                d = f"(fun2 {app_id(name)} {t(args[0])} {t(args[1])})"
            else:
                s += f"(declare-const u{i} Real)\n"
                d = f"u{i}"
        else:
            raise ValueError(op)
        s += f"(define-fun t{i} () Real {d})\n"
    return s



def rounding_axioms(q):
    """bounding axioms for every application of the uninterpreted rounding functions in query text q:
    ufloor(X) <= X < ufloor(X)+1 etc. (real relaxation: still an over-approximation of the exact semantics)"""
    seen = {}
    for m in re.finditer(r"\((ufloor|uceil|uround|utrunc) ", q):
        st = m.start()
        depth, j = 0, st
        while True:
            ch = q[j]
            if ch == "(":
                depth += 1
            elif ch == ")":
                depth -= 1
                if depth == 0:
                    break
            j += 1
        app = q[st:j + 1]
        if app in seen:
            continue
        arg = q[st + len(m.group(0)):j]
        f = m.group(1)
        if f == "ufloor":
            seen[app] = f"(assert (and (<= {app} {arg}) (< {arg} (+ {app} 1.0))))"
        elif f == "uceil":
            seen[app] = f"(assert (and (>= {app} {arg}) (> {arg} (- {app} 1.0))))"
        else:
            seen[app] = f"(assert (and (<= (- {app} {arg}) 1.0) (<= (- {arg} {app}) 1.0)))"
    return "\n".join(seen.values()) + ("\n" if seen else "")



class Normalizer:
    """emits SMT for run terms in normalised form: every term becomes a linear combination (exact rational
    coefficients) of variables and *atoms* (min/max/abs/rounding/products/quotients/uninterpreted applications,
    identified structurally).  Pure algebra over the reals: sound wherever real arithmetic stands for the f32
    arithmetic, which is what the exactness flags establish separately."""

    def __init__(self, run, cut=()):
        self.run = run
        self.hh = struct_hasher(run)
        self.cut_h = set(hash(self.hh(c)) for c in cut)
        self.lin_memo = {}
        self.atom_name = {}     # structural hash -> smt name
        self.decls = []
        self.used = set()       # term ids visited (for exactness accounting)

    def lin(self, i):
        if i in self.lin_memo:
            return self.lin_memo[i]
        self.used.add(i)
        ex, g, vb, op, a = self.run.terms[i]
        if self.cut_h and hash(self.hh(i)) in self.cut_h:
            res = {self.atom(i, free=True): Fraction(1)}
        elif op == "var":
            res = {f"v{a[0]}": Fraction(1)}
        elif op == "const":
            v = f32_from_bits(int(a[0]))
            res = {"1": Fraction(v)} if v == v and abs(v) != float("inf") else {self.atom(i, free=True): Fraction(1)}
        elif op in ("add", "sub"):
            x, y = self.lin(int(a[0])), self.lin(int(a[1]))
            res = dict(x)
            sgn = 1 if op == "add" else -1
            for k, c in y.items():
                res[k] = res.get(k, 0) + sgn * c
                if res[k] == 0:
                    del res[k]
        elif op == "neg":
            res = {k: -c for k, c in self.lin(int(a[0])).items()}
        elif op == "mul":
            x, y = self.lin(int(a[0])), self.lin(int(a[1]))
            if set(x) <= {"1"}:
                c = x.get("1", Fraction(0))
                res = {k: c * v for k, v in y.items() if c * v != 0}
            elif set(y) <= {"1"}:
                c = y.get("1", Fraction(0))
                res = {k: c * v for k, v in x.items() if c * v != 0}
            else:
                res = {self.atom(i): Fraction(1)}
        elif op == "div":
            x, y = self.lin(int(a[0])), self.lin(int(a[1]))
            if set(y) <= {"1"} and y.get("1", 0) != 0:
                c = y["1"]
                res = {k: v / c for k, v in x.items()}
            else:
                res = {self.atom(i): Fraction(1)}
        else:
            res = {self.atom(i): Fraction(1)}
        self.lin_memo[i] = res
        return res

    def expr(self, l):
        if not l:
            return "0.0"
        parts = []
        for k, c in l.items():
            if k == "1":
                parts.append(num(c))
            elif c == 1:
                parts.append(k)
            else:
                parts.append(f"(* {num(c)} {k})")
        return parts[0] if len(parts) == 1 else "(+ " + " ".join(parts) + ")"

    def term(self, i):
        return self.expr(self.lin(i))

    def atom(self, i, free=False):
        h = hash(self.hh(i))
        if h in self.atom_name:
            return self.atom_name[h]
        name = f"a{len(self.atom_name)}"
        self.atom_name[h] = name
        ex, g, vb, op, a = self.run.terms[i]
        if free:
            self.decls.append(f"(declare-const {name} Real)")
            return name
        if op in ("min", "max"):
            d = f"(r{op} {self.term(int(a[0]))} {self.term(int(a[1]))})"
        elif op in ("abs", "floor", "ceil", "round", "trunc"):
            d = f"(r{op} {self.term(int(a[0]))})"
        elif op == "mul":
            d = f"(* {self.term(int(a[0]))} {self.term(int(a[1]))})"
        elif op == "div":
            nume, den = self.term(int(a[0])), self.term(int(a[1]))
            self.decls.append(f"(declare-const {name} Real)\n(assert (=> (not (= {den} 0.0)) (= (* {name} {den}) {nume})))")
            return name
        elif op == "app":
            args = [self.term(int(x)) for x in a[1:]]
            if a[0] == "signum" and len(args) == 1:
                d = f"(ite (>= {args[0]} 0.0) 1.0 (- 1.0))"     # f32::signum away from NaN
            elif len(args) == 1:
                d = f"(fun1 {app_id(a[0])} {args[0]})"
            elif len(args) == 2:
                d = f"(fun2 {app_id(a[0])} {args[0]} {args[1]})"
            else:
                self.decls.append(f"(declare-const {name} Real)")
                return name
        else:
            raise ValueError(op)
        self.decls.append(f"(define-fun {name} () Real {d})")
        return name

    def emit(self, roots):
        """definitions for the given root term ids (t<i>), atoms first"""
        defs = []
        for i in sorted(roots):
            if i in self.run.terms:
                defs.append(f"(define-fun t{i} () Real {self.term(i)})")
        return "\n".join(self.decls + defs) + "\n"


def cond_smt(c, flip=False):
    taken, op, a, b = c[0], c[1], c[2], c[3]
    if flip:
        taken = not taken
    f = "(%s t%d t%d)" % ({"lt": "<", "le": "<=", "eq": "="}[op], a, b)
    return f if taken else f"(not {f})"


def term_refs(smt):
    return set(int(m) for m in re.findall(r"\bt(\d+)\b", smt))



def grain_fn(run):
    """true dyadic grain / exactness of terms.  Every term is normalised to a linear form  sum c_k * X_k  with exact
    rational coefficients, where X_k is a variable, the constant 1, or an *atom* (a non-linear sub-term such as
    min/max/abs/floor or a product, identified structurally so that equal atoms cancel).
    grain(i) = g with value in 2^-g Z for every valuation of the grid variables (None: unknown);
    grain.exact(i) = the f32 operation producing term i is free of rounding for every valuation in the domain."""
    hh = struct_hasher(run)
    lin_memo, g_memo, ex_memo, mb_memo = {}, {}, {}, {}
    atoms = {}

    def atom(i):
        k = ("a", hash(hh(i)))
        atoms.setdefault(k, i)
        return {k: Fraction(1)}

    def lin(i):
        if i in lin_memo:
            return lin_memo[i]
        ex, g, vb, op, a = run.terms[i]
        res = None
        if op == "var":
            res = {int(a[0]): Fraction(1)}
        elif op == "const":
            v = f32_from_bits(int(a[0]))
            res = {-1: Fraction(v)} if v == v and abs(v) != float("inf") else atom(i)
        elif op in ("add", "sub"):
            x, y = lin(int(a[0])), lin(int(a[1]))
            res = dict(x)
            sgn = 1 if op == "add" else -1
            for k, c in y.items():
                res[k] = res.get(k, 0) + sgn * c
                if res[k] == 0:
                    del res[k]
        elif op == "neg":
            res = {k: -c for k, c in lin(int(a[0])).items()}
        elif op == "mul":
            x, y = lin(int(a[0])), lin(int(a[1]))
            if set(x) <= {-1}:
                c = x.get(-1, Fraction(0))
                res = {k: c * v for k, v in y.items() if c * v != 0}
            elif set(y) <= {-1}:
                c = y.get(-1, Fraction(0))
                res = {k: c * v for k, v in x.items() if c * v != 0}
            else:
                res = atom(i)
        elif op == "div":
            x, y = lin(int(a[0])), lin(int(a[1]))
            if set(y) <= {-1} and y.get(-1, 0) != 0:
                c = y[-1]
                res = {k: v / c for k, v in x.items()}
            else:
                res = atom(i)
        else:
            res = atom(i)
        lin_memo[i] = res
        return res

    def pow2log(d):
        return d.bit_length() - 1 if d > 0 and d & (d - 1) == 0 else None

    def key_grain(k):
        if k == -1:
            return 0
        if isinstance(k, int):
            return max(0, run.vars[k][2])
        return atom_grain(atoms[k])

    def key_bound(k):
        if k == -1:
            return Fraction(1)
        if isinstance(k, int):
            return Fraction(max(abs(run.vars[k][0]), abs(run.vars[k][1])))
        return atom_bound(atoms[k])

    def atom_grain(i):
        ex, g, vb, op, a = run.terms[i]
        if op in ("min", "max"):
            x, y = grain(int(a[0])), grain(int(a[1]))
            return None if x is None or y is None else max(x, y)
        if op == "abs":
            return grain(int(a[0]))
        if op in ("floor", "ceil", "round", "trunc"):
            return 0
        if op == "mul":
            x, y = grain(int(a[0])), grain(int(a[1]))
            return None if x is None or y is None else x + y
        return None

    def atom_bound(i):
        ex, g, vb, op, a = run.terms[i]
        if op in ("min", "max"):
            x, y = maxabs(int(a[0])), maxabs(int(a[1]))
            return None if x is None or y is None else max(x, y)
        if op == "abs":
            return maxabs(int(a[0]))
        if op in ("floor", "ceil", "round", "trunc"):
            x = maxabs(int(a[0]))
            return None if x is None else x + 1
        if op == "mul":
            x, y = maxabs(int(a[0])), maxabs(int(a[1]))
            return None if x is None or y is None else x * y
        return None

    def grain(i):
        if i in g_memo:
            return g_memo[i]
        g_memo[i] = None  # cycle guard (DAG: not needed, but cheap)
        res = 0
        for k, c in lin(i).items():
            kg = key_grain(k)
            if kg is None:
                res = None
                break
            p = pow2log((Fraction(c) / (2 ** kg)).denominator)
            if p is None:
                res = None
                break
            res = max(res, p)
        g_memo[i] = res
        return res

    def maxabs(i):
        if i in mb_memo:
            return mb_memo[i]
        m = Fraction(0)
        for k, c in lin(i).items():
            b = key_bound(k)
            if b is None:
                m = None
                break
            m += abs(c) * b
        mb_memo[i] = m
        return m

    def exact(i):
        if i in ex_memo:
            return ex_memo[i]
        ex, g, vb, op, a = run.terms[i]
        if ex == "E":
            res = True
        elif op in ("var", "const"):
            res = ex == "E"
        elif op == "app":
            res = False
        else:
            kids = [int(x) for x in a]
            res = all(exact(k) for k in kids)
            if res and op not in ("min", "max", "abs", "neg"):
                gg, mm = grain(i), maxabs(i)
                res = gg is not None and mm is not None and mm * (2 ** gg) <= 2 ** 24
        ex_memo[i] = res
        return res
    grain.exact = exact
    return grain


_STRUCT_INTERN = {}


def struct_hasher(run):
    """structural identity of a term as a small integer (hash-consing: the key of a term is its operator and the identities
    of its operands, interned process-wide, so shared sub-terms are never expanded and equal structures of different runs
    get the same identity)"""
    memo = {}

    def h(i):
        if i not in memo:
            ex, g, vb, op, a = run.terms[i]
            if op in ("var", "const"):
                key = (op, a[0])
            elif op == "app":
                key = (op, a[0]) + tuple(h(int(x)) for x in a[1:])
            else:
                key = (op,) + tuple(h(int(x)) for x in a)
            memo[i] = _STRUCT_INTERN.setdefault(key, len(_STRUCT_INTERN) + 1)
        return memo[i]
    return h


def path_key(run, upto=None):
    h = struct_hasher(run)
    p = run.path if upto is None else run.path[:upto]
    return tuple((c[0], c[1], hash(h(c[2])), hash(h(c[3]))) for c in p)


# ----------------------------------------------------------------------------------------------- output access
def strip_ns(tag):
    return tag.split("}")[-1] if isinstance(tag, str) else tag


class Out:
    """parsed output document; attribute values are exposed as SMT terms (t<i> for a token, literal for a number)"""

    def __init__(self, xml):
        self.xml = xml
        # fragments (no single root) are wrapped
        try:
            self.root = ET.fromstring(xml)
            self.wrapped = False
        except ET.ParseError:
            self.root = ET.fromstring("<wrap__>" + xml + "</wrap__>")
            self.wrapped = True
        self.parent = {c: p for p in self.root.iter() for c in p}
        self.all = [e for e in self.root.iter() if isinstance(e.tag, str) and strip_ns(e.tag) != "wrap__"]

    def tag(self, el):
        return strip_ns(el.tag)

    def by_tag(self, *tags):
        return [e for e in self.all if strip_ns(e.tag) in tags]

    def by_id(self, id_):
        for e in self.all:
            if e.get("id") == id_:
                return e
        return None

    def children(self, el):
        return [c for c in el if isinstance(c.tag, str)]

    @staticmethod
    def tok(v):
        """SMT term for one numeric lexeme"""
        v = v.strip()
        m = TOK_FULL.match(v)
        if m:
            return f"(- t{int(m.group(1))})" if v.startswith("-") else f"t{int(m.group(1))}"
        return num(Fraction(v))

    def num(self, el, attr, default="0.0"):
        v = el.get(attr)
        if v is None:
            if default is None:
                raise KeyError(f"<{self.tag(el)}> lacks {attr}")
            return default
        return self.tok(v)

    def nums(self, el, attr):
        v = el.get(attr)
        if v is None:
            return []
        return [self.tok(x) for x in re.split(r"[\s,]+", v.strip()) if x]

    def has_token(self, s):
        return bool(TOK.search(s or ""))


def concretize_output(run, text):
    """replace every token in an SX output by the repository's formatting of its concrete value"""
    return TOK.sub(lambda m: fstr_py(run.val(int(m.group(1)))), text)


# ----------------------------------------------------------------------------------------------- obligations
class Obl:
    """one proof obligation on one path: `neg` is the NEGATED property (SMT Bool); unsat = holds on this path"""
    __slots__ = ("name", "neg", "mode", "ground", "note", "cut", "via")

    def __init__(self, name, neg, mode="int", ground=False, note="", cut=(), via=()):
        self.name = name
        self.neg = neg
        self.mode = mode      # 'int' (grid), 'real' (interval hull), 'euf' (uninterpreted float ops, free reals)
        self.ground = ground  # no symbolic quantity involved (decided without the solver when neg is 'true'/'false')
        self.note = note
        self.cut = tuple(cut)  # term ids abstracted to free constants in this query (sound over-approximation)
        self.via = tuple(via)  # sufficient conditions [(negated lemma, mode)]: if every lemma is valid on the path the obligation holds


FAIL = "true"    # negated property trivially satisfiable: violated whenever the path is feasible
PASS = "false"


def eq(a, b):
    return f"(= {a} {b})"


def ne(a, b):
    return f"(not (= {a} {b}))"


def plus(*a):
    a = list(a)
    return a[0] if len(a) == 1 else "(+ " + " ".join(a) + ")"


def minus(a, b):
    return f"(- {a} {b})"


def neg(a):
    return f"(- {a})"


def mul(a, b):
    return f"(* {a} {b})"


def half(a):
    return f"(/ {a} 2.0)"


def div(a, b):
    return f"(/ {a} {b})"


def rmin(*a):
    a = list(a)
    r = a[0]
    for x in a[1:]:
        r = f"(rmin {r} {x})"
    return r


def rmax(*a):
    a = list(a)
    r = a[0]
    for x in a[1:]:
        r = f"(rmax {r} {x})"
    return r


def and_(*a):
    a = [x for x in a]
    if not a:
        return "true"
    return a[0] if len(a) == 1 else "(and " + " ".join(a) + ")"


def or_(*a):
    a = [x for x in a]
    if not a:
        return "false"
    return a[0] if len(a) == 1 else "(or " + " ".join(a) + ")"


def not_(a):
    return f"(not {a})"


def ite(c, a, b):
    return f"(ite {c} {a} {b})"


def le(a, b):
    return f"(<= {a} {b})"


def lt(a, b):
    return f"(< {a} {b})"


def ge(a, b):
    return f"(>= {a} {b})"


def gt(a, b):
    return f"(> {a} {b})"


def near(a, b, tol):
    return f"(near {a} {b} {num(tol)})"


def v(k):
    return f"v{k}"


# ----------------------------------------------------------------------------------------------- exploration
class Template:
    """one symbolic document (or several sharing variables) with its oracle.
    docs: list of strings with [[k]] placeholders;  vars: list of (init, lo, hi, shift);
    check(run) -> list[Obl];  role: signature used for known-finding matching"""

    def __init__(self, name, docs, vars_, check, role="", family="", cap=24, flags="-", budget=3000000, seeds=(), explore=True, meta=None, assume=None):
        self.name = name
        self.docs = docs if isinstance(docs, (list, tuple)) else [docs]
        self.vars = list(vars_)
        self.check = check
        self.role = role or family or name
        self.family = family or name
        self.cap = cap
        self.flags = flags
        self.budget = budget
        self.seeds = list(seeds)   # extra initial valuations (lists of values) for path discovery
        self.explore = explore
        self.meta = meta or {}
        self.assume = assume  # SMT Bool over v<k>: part of the stated domain of this template


def model_to_vals(model, vars_, mode):
    vals = []
    for k, (_i, lo, hi, sh) in enumerate(vars_):
        if mode == "int":
            kv = model.get(f"k{k}")
            if kv is None:
                return None
            vals.append(Fraction(kv) / 2 ** sh)
        else:
            x = model.get(f"v{k}")
            if x is None:
                return None
            # snap to the grid and clamp into the domain
            g = 2 ** sh
            q = Fraction(round(x * g), g)
            q = min(max(q, Fraction(lo)), Fraction(hi))
            vals.append(q)
    return vals


def concrete_docs(tpl, vals):
    out = []
    for d in tpl.docs:
        for k in reversed(range(len(vals))):
            d = d.replace(f"[[{k}]]", frac_str(vals[k]))
        out.append(d)
    return out


class Ctx:
    """per-worker resources"""

    def __init__(self, build, z3_timeout_ms=10000):
        self.build = build
        self.sx = Runner(build["sxrun"])
        self.native = Runner(build["native"], native=True)
        self.native_rel = None
        self.z3 = Solver("z3", z3_timeout_ms)
        self.cvc5 = None

    def get_cvc5(self):
        if self.cvc5 is None:
            self.cvc5 = Solver("cvc5", 20000)
        return self.cvc5

    def close(self):
        for x in (self.sx, self.native, self.native_rel, self.z3, self.cvc5):
            if x:
                x.close()


def run_template(ctx, tpl, vals):
    vars_ = [(float(vals[k]), lo, hi, sh) for k, (_i, lo, hi, sh) in enumerate(tpl.vars)]
    return ctx.sx.run(tpl.docs, vars_, budget=tpl.budget, flags=tpl.flags)


def query_text(run, pcs, extra, mode, assume=None, cut=()):
    """SMT for: domain ∧ path conditions ∧ extra.  Modes int/real use the normalised emission (linear forms over
    variables and atoms); mode euf keeps the exact operation structure over uninterpreted float operations."""
    body = (f"(assert {assume})\n" if assume else "") + "".join(f"(assert {c})\n" for c in pcs) + (f"(assert {extra})\n" if extra else "")
    roots = term_refs(body)
    vm = {"int": "int", "real": "real", "euf": "free"}[mode]
    if mode == "euf":
        ids = cone(run, roots)
        return smt_vars(run.vars, vm) + smt_terms(run, ids, euf=True) + body, ids
    nz = Normalizer(run, cut)
    defs = nz.emit(roots)
    return smt_vars(run.vars, vm) + defs + body, nz.used


def native_check(ctx, tpl, vals, obl_name=None, release=False):
    """replay a valuation on the unmodified build; returns (violated obligation names, native run, docs)"""
    docs = concrete_docs(tpl, vals)
    runner = ctx.native
    if release:
        if ctx.native_rel is None:
            from . import build as B
            m = B.ensure_built(None, want_release=True, verbose=False)
            ctx.native_rel = Runner(m["native_release"], native=True)
        runner = ctx.native_rel
    nr = runner.run(docs, (), flags=tpl.flags)
    nr.vars = [(lo, hi, sh, float(vals[k])) for k, (_i, lo, hi, sh) in enumerate(tpl.vars)]
    try:
        obls = tpl.check(nr)
    except Exception as e:  # oracle cannot interpret the native output: treated as not reproduced
        return None, nr, docs, f"oracle error on native output: {e!r}"
    pins = "".join(f"(assert (= v{k} {num(vals[k])}))\n" for k in range(len(vals)))
    bad = []
    for o in obls:
        if o.neg == PASS:
            continue
        if o.neg == FAIL:
            bad.append(o.name)
            continue
        if term_refs(o.neg):
            return None, nr, docs, "oracle refers to SX terms on a native run"
        vm = "free" if o.mode == "euf" else "real"
        q = smt_vars(nr.vars, "free") + pins + f"(assert {o.neg})\n"
        ans, _ = ctx.z3.ask(q)
        if ans == "sat":
            bad.append(o.name)
    return bad, nr, docs, None


def explore(ctx, tpl, stats):
    """generational search over the paths of one template, deciding every obligation on every path.
    returns list of findings (dicts)"""
    findings = []
    init = [Fraction(x[0]) for x in tpl.vars]
    work = [init] + [[Fraction(x) for x in s] for s in tpl.seeds]
    if tpl.assume:
        # every starting valuation must lie inside the stated domain (assumption included)
        vdecl = [(lo, hi, sh, 0.0) for (_i, lo, hi, sh) in tpl.vars]
        ok_work = []
        for w in work:
            pins = "".join(f"(assert (= v{k} {num(w[k])}))\n" for k in range(len(w)))
            a, _ = ctx.z3.ask(smt_vars(vdecl, "int") + pins + f"(assert {tpl.assume})\n")
            if a == "sat":
                ok_work.append(w)
        if not ok_work:
            a, m = ctx.z3.ask(smt_vars(vdecl, "int") + f"(assert {tpl.assume})\n", [f"k{k}" for k in range(len(vdecl))])
            if a == "sat" and m:
                ok_work.append(model_to_vals(m, tpl.vars, "int"))
        work = ok_work
        if not work:
            raise RuntimeError(f"template {tpl.name}: no valuation satisfies the stated assumption (vacuous template): {tpl.assume!r}")
    work.reverse()
    seen = {}
    tried = set()
    st = stats
    st.setdefault("templates", 0)
    st["templates"] += 1
    exhaustive = True
    sample = None
    t_start = time.time()
    t_cap = float(os.environ.get("VERIF_TEMPLATE_CAP_S", "240"))
    t_cap = min(t_cap, max(10.0, float(os.environ.get("VERIF_RUN_DEADLINE", "inf")) - time.time()))
    while work:
        if len(seen) >= tpl.cap:
            exhaustive = False
            break
        if seen and time.time() - t_start > t_cap:
            # wall-clock cap per template: what was not explored is reported, never silently passed
            exhaustive = False
            st["undecided"] = st.get("undecided", 0) + 1
            findings.append(dict(kind="undecided", tpl=tpl.name, role=tpl.role, vals=None, obl="exploration", detail=f"template time cap ({t_cap:.0f} s) reached after {len(seen)} path(s)"))
            break
        vals = work.pop()
        r = run_template(ctx, tpl, vals)
        st["runs"] = st.get("runs", 0) + 1
        if r.died and not r.terms:
            findings.append(dict(kind="abort", tpl=tpl.name, role=tpl.role, vals=vals, obl="runner-abort", detail=r.docs[0]["msg"]))
            continue
        if r.token_damage:
            st["token_damage"] = st.get("token_damage", 0) + 1
        key = path_key(r) + tuple(d["status"] for d in r.docs)
        if key in seen:
            continue
        seen[key] = r
        st["paths"] = st.get("paths", 0) + 1
        st["branches"] = st.get("branches", 0) + len(r.path)
        st["concretized"] = st.get("concretized", 0) + r.concretized
        for f in r.symfns:
            st.setdefault("symfns", {}).setdefault(f, 0)
            st["symfns"][f] += 1
        pcs = [cond_smt(c) for c in r.path]
        gr = grain_fn(r)
        inexact_br = sum(1 for c in r.path if not (gr.exact(c[2]) and gr.exact(c[3])))
        st["inexact_branches"] = st.get("inexact_branches", 0) + inexact_br
        # number formatting is modelled as the identity: sound where the printed value is a multiple of 1/8.
        # The runtime's syntactic grain <= 3 proves that; otherwise the term is normalised to a linear form over the
        # variables (exact rational coefficients) and its true grain is computed from the coefficients.
        offgrid = 0
        for t in r.fstr:
            ex, g = r.terms[t][0], r.terms[t][1]
            if ex == "E" and (g or 0) <= 3:
                continue
            if not gr.exact(t):
                offgrid += 1
                continue
            g2 = gr(t)
            if g2 is None or g2 > 3:
                offgrid += 1
        r.offgrid = offgrid
        st["fstr_offgrid"] = st.get("fstr_offgrid", 0) + offgrid
        # ---- obligations on this path
        try:
            obls = tpl.check(r)
        except Exception as e:
            import traceback
            findings.append(dict(kind="oracle-error", tpl=tpl.name, role=tpl.role, vals=vals, obl="oracle", detail=traceback.format_exc()[-1500:]))
            obls = []
        for o in obls:
            st["obligations"] = st.get("obligations", 0) + 1
            if o.ground:
                st["ground"] = st.get("ground", 0) + 1
            if o.neg == PASS:
                st["discharged"] = st.get("discharged", 0) + 1
                continue
            abstract = False
            alt = None
            if o.neg == FAIL:
                ans, model = "sat", None
                cvals = vals
            else:
                if o.via:
                    # lemma route: each lemma is a (stronger, easier) statement that implies the property; the property's own
                    # query is only needed when a lemma fails
                    allok = True
                    for lneg, lmode in o.via:
                        ql, _ = query_text(r, pcs, lneg, lmode, tpl.assume)
                        la, _m = ctx.z3.ask(ql)
                        st["queries"] = st.get("queries", 0) + 1
                        if la != "unsat":
                            allok = False
                            break
                    if allok:
                        st["discharged"] = st.get("discharged", 0) + 1
                        st["discharged_via_lemma"] = st.get("discharged_via_lemma", 0) + 1
                        continue
                opcs = [] if o.cut else pcs   # a cut query is a local algebraic fact; path conditions over cut terms are dropped
                q, ids = query_text(r, opcs, o.neg, o.mode, tpl.assume, cut=o.cut)
                if any(not gr.exact(i) for i in ids):
                    st["inexact_obligations"] = st.get("inexact_obligations", 0) + 1
                want = [f"k{k}" for k in range(len(r.vars))] if o.mode == "int" else [f"v{k}" for k in range(len(r.vars))]
                ans, model, cvals = None, None, None
                abstract = False
                if o.mode in ("int", "real") and ("(rfloor " in q or "(rceil " in q or "(rround " in q or "(rtrunc " in q):
                    # stage A: rounding functions abstracted to uninterpreted functions over the real hull of the domain
                    # (an over-approximation: unsat carries over to the exact semantics; sat is re-decided exactly below)
                    qa, _ = query_text(r, opcs, o.neg, "real", tpl.assume, cut=o.cut)
                    for f in ("floor", "ceil", "round", "trunc"):
                        qa = qa.replace(f"(r{f} ", f"(u{f} ")
                    qa = qa + rounding_axioms(qa)
                    ans_a, model_a = ctx.z3.ask(qa, [f"v{k}" for k in range(len(r.vars))])
                    st["queries"] = st.get("queries", 0) + 1
                    st["uf_rounding_queries"] = st.get("uf_rounding_queries", 0) + 1
                    if ans_a == "unsat":
                        ans = "unsat"
                    else:
                        ans, model = ctx.z3.ask(q, want)
                        st["queries"] = st.get("queries", 0) + 1
                        if ans not in ("sat", "unsat") and ans_a == "sat" and model_a:
                            # exact query undecided: the abstract model is tried as a candidate on the real build
                            ans = "sat"
                            cvals = model_to_vals(model_a, tpl.vars, "real")
                            model = None
                            abstract = True
                else:
                    ans, model = ctx.z3.ask(q, want)
                    st["queries"] = st.get("queries", 0) + 1
                alt = None
                if cvals is None:
                    cvals = model_to_vals(model, tpl.vars, "int" if o.mode == "int" else "real") if (ans == "sat" and model) else None
                if ans == "sat" and o.mode == "real" and not abstract:
                    # the model lives in the real hull; ask for one on the grid as well (short cap), keep the snapped one as fallback
                    qi, _ = query_text(r, opcs, o.neg, "int", tpl.assume, cut=o.cut)
                    ai, mi = ctx.z3.ask(qi, [f"k{k}" for k in range(len(r.vars))])
                    st["queries"] = st.get("queries", 0) + 1
                    if ai == "sat" and mi:
                        alt, cvals = cvals, model_to_vals(mi, tpl.vars, "int")
                    elif ai == "unsat":
                        # violated only off the grid: outside the stated domain
                        ans = "unsat"
            if ans == "unsat":
                st["discharged"] = st.get("discharged", 0) + 1
                if sample is None and not o.ground:
                    sample = dict(template=tpl.name, docs=tpl.docs, vars=[f"v{k} in [{lo},{hi}] step 2^-{sh}" for k, (_i, lo, hi, sh) in enumerate(tpl.vars)],
                                  path=[cond_show(r, c) for c in r.path[:8]], obligation=o.name, negated_property=o.neg[:400], verdict="unsat")
            elif ans == "sat":
                findings.append(dict(kind="cex", tpl=tpl.name, role=tpl.role, vals=cvals, obl=o.name, mode=o.mode, sxvals=None if abstract else vals, neg=o.neg[:600], detail="", abstract=abstract, alt=alt))
            else:
                st["undecided"] = st.get("undecided", 0) + 1
                findings.append(dict(kind="undecided", tpl=tpl.name, role=tpl.role, vals=None, obl=o.name, detail=ans))
        # ---- branch negation (path discovery by the solver)
        if tpl.explore:
            for i in range(len(pcs)):
                pk = path_key(r, i + 1)
                flipped = pk[:-1] + ((not pk[-1][0],) + pk[-1][1:],)
                if flipped in tried:
                    continue
                tried.add(flipped)
                q, _ = query_text(r, pcs[:i], cond_smt(r.path[i], flip=True), "int", tpl.assume)
                ans, model = ctx.z3.ask(q, [f"k{k}" for k in range(len(r.vars))])
                st["queries"] = st.get("queries", 0) + 1
                st["negations"] = st.get("negations", 0) + 1
                if ans == "sat" and model:
                    nv = model_to_vals(model, tpl.vars, "int")
                    if nv is not None:
                        work.append(nv)
                elif ans != "unsat":
                    exhaustive = False
    if not exhaustive:
        st["non_exhaustive_templates"] = st.get("non_exhaustive_templates", 0) + 1
    if sample and "sample" not in st:
        st["sample"] = sample
    return findings, seen


def cond_show(run, c):
    def sh(i, depth=0):
        ex, g, vb, op, a = run.terms[i]
        if op == "var":
            return f"v{a[0]}"
        if op == "const":
            return fstr_py(f32_from_bits(int(a[0])))
        if depth > 4:
            return "…"
        if op == "app":
            return f"({a[0]} " + " ".join(sh(int(x), depth + 1) for x in a[1:]) + ")"
        sym = {"add": "+", "sub": "-", "mul": "*", "div": "/", "neg": "-"}.get(op, op)
        return f"({sym} " + " ".join(sh(int(x), depth + 1) for x in a) + ")"
    s = "(%s %s %s)" % ({"lt": "<", "le": "<=", "eq": "="}[c[1]], sh(c[2]), sh(c[3]))
    return s if c[0] else f"(not {s})"
