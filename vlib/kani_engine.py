"""KANI engine: bit-precise bounded model checking (Kani 0.68 / CBMC 6.11) of string-free numeric kernels and of the
built-in function layer of the expression language.  Harness modules live in /verif/kani and are appended to a scratch
copy of /repo's current working tree; nothing is added to /repo.  See DESIGN.md §4."""
import json, os, random, re, shutil, struct, subprocess, sys, tempfile, time, hashlib
from concurrent.futures import ThreadPoolExecutor
from . import build as B
from . import engine as E

VERIF = B.VERIF
CACHE = B.CACHE
HARNESS_FILES = {"expression.rs": "expression_harness.rs", "position.rs": "position_harness.rs", "transform_attr.rs": "transform_attr_harness.rs"}

FN_TOTAL = ["abs", "ceil", "floor", "fract", "sign", "divmod", "sqrt", "log", "exp", "pow", "sin", "cos", "min", "max", "sum", "product", "mean", "clamp",
            "mix", "lt", "le", "gt", "ge", "not", "and", "or", "xor", "p2r", "addv", "subv", "scalev", "empty", "count"]
# measured on this image and therefore NOT claimed:
EXCLUDED = {
    "(tan asin acos atan r2p)": "call libm functions (tanf, asinf, acosf, atanf, hypotf/atan2f) that Kani 0.68 does not model: verified with f32::{tan,asin,acos,atan,atan2,hypot} stubbed by an arbitrary f32 result (sound over-approximation for 'never panics')",
    "head tail swap select if in eq ne": "clone / compare ExprValue lists (String-carrying enum): CBMC did not finish within 300 s per harness",
    "(random randint)": "verified with the generator state concrete (seed 0, first draw): the sampler of rand 0.9 is loop-free; other generator states are not covered",
    "split splitw trim join _": "String machinery",
}
ALWAYS = ["clamp", "divmod", "mean", "min"]
# harnesses of their own shape (not the 0..=3 symbolic-argument driver): harness -> (built-in, number of symbolic f32 arguments, concrete arguments appended)
# built-ins that call libm: verified with the libm-backed f32 methods replaced by an arbitrary result (over-approximation)
FN_TOTAL3 = {"k_fn_total3_tan": "tan", "k_fn_total3_asin": "asin", "k_fn_total3_acos": "acos", "k_fn_total3_atan": "atan", "k_fn_total3_r2p": "r2p"}
FN_TOTAL2 = {
    "k_fn_total2_randint": ("randint", 2, []),
    "k_fn_total2_random": ("random", 0, []),
}
KERNELS = {
    "C08": ["k_round_outward", "k_expand", "k_combine_lub", "k_intersect_glb", "k_xfrm_apply"],
    "C09": ["k_locspec_named", "k_locspec_edges", "k_calc_offset_abs", "k_calc_offset_ratio", "k_scalarspec"],
    "C11": ["k_extent_pair_se", "k_extent_pair_sm", "k_extent_pair_em", "k_extent_pair_sl", "k_extent_pair_el", "k_extent_pair_ml", "k_extent_insufficient", "k_circle_three_point"],
    "C12": ["k_combine_lub", "k_intersect_glb", "k_union3", "k_trbl_abs"]   # percent margins (f32 multiplication by a symbolic base): CBMC needs > 6 min per ratio, decided by SX instead,
}
FN_NAME = {"eq": "eq", "ne": "ne", "r2p": "r2p", "p2r": "p2r"}


def prepare_scratch():
    d = tempfile.mkdtemp(prefix="svgdx-kani-")
    for item in ("src", "Cargo.toml", "Cargo.lock"):
        s = os.path.join(B.REPO, item)
        if os.path.isdir(s):
            shutil.copytree(s, os.path.join(d, item))
        else:
            shutil.copy(s, os.path.join(d, item))
    for target, hf in HARNESS_FILES.items():
        with open(os.path.join(d, "src", target), "a") as f:
            f.write(open(os.path.join(VERIF, "kani", hf)).read())
    return d


def run_group(args):
    """one worker = one cargo target directory; harnesses run one process each so that each has its own time cap"""
    scratch, idx, harnesses, timeout_s = args
    env = dict(B.ENV, CARGO_TARGET_DIR=os.path.join(CACHE, f"kani-target-{idx}"))
    t0 = time.time()
    outs = []
    for h in harnesses:
        cmd = ["cargo", "kani", "--no-default-features", "--lib", "-Z", "stubbing", "--output-format", "terse", "--harness", h]
        pre = f"ulimit -v {14 * 1024 * 1024}; exec " + " ".join(cmd)
        try:
            p = subprocess.run(["bash", "-c", pre], cwd=scratch, env=env, stdout=subprocess.PIPE, stderr=subprocess.STDOUT, text=True, timeout=timeout_s, start_new_session=True)
            outs.append(p.stdout)
        except subprocess.TimeoutExpired as e:
            o = (e.stdout or b"")
            o = o.decode(errors="replace") if isinstance(o, bytes) else o
            outs.append(o + f"\n[verif] harness {h} timed out after {timeout_s}s\n")
            subprocess.run(["pkill", "-f", f"kani-target-{idx}"], stdout=subprocess.DEVNULL, stderr=subprocess.DEVNULL)
            subprocess.run(["pkill", "-f", "cbmc"], stdout=subprocess.DEVNULL, stderr=subprocess.DEVNULL) if False else None
    return idx, harnesses, "\n".join(outs), time.time() - t0


def parse_results(out, harnesses):
    """per harness: status in success/failed/nan-only/inconclusive, time, failed check descriptions"""
    res = {h: dict(status="inconclusive", time=None, failed=[], stubs=[]) for h in harnesses}
    blocks = re.split(r"^Checking harness ", out, flags=re.M)[1:]
    for b in blocks:
        name = b.split("...", 1)[0].strip()
        short = name.split("::")[-1]
        if short not in res:
            continue
        r = res[short]
        m = re.search(r"Verification Time: ([\d.]+)s", b)
        if m:
            r["time"] = float(m.group(1))
        r["stubs"] = re.findall(r"- Stub: (.*)", b)
        fails = re.findall(r"Failed Checks: (.*)", b)
        r["failed"] = fails
        cov = re.search(r"\*\* (\d+) of (\d+) cover properties satisfied", b)
        if cov:
            r["cover"] = (int(cov.group(1)), int(cov.group(2)))
        if "VERIFICATION:- SUCCESSFUL" in b:
            r["status"] = "success"
        elif "VERIFICATION:- FAILED" in b:
            real = [f for f in fails if not f.strip().startswith("NaN on")]
            if "Status: ERROR" in b or "unwinding assertion" in b.lower() and not real:
                r["status"] = "inconclusive"
            elif fails and not real:
                # CBMC's --nan-check reports operations that *produce* NaN (inf - inf): defined behaviour in Rust, not a panic
                r["status"] = "nan-only"
            elif real:
                r["status"] = "failed"
            else:
                r["status"] = "inconclusive"
        if r.get("cover") and r["cover"][0] == 0 and r["status"] == "success":
            r["status"] = "inconclusive"   # vacuous harness
    return res


def run_harnesses(harnesses, groups=6, timeout_s=420, scratch=None):
    own = scratch is None
    if own:
        scratch = prepare_scratch()
    try:
        harnesses = list(dict.fromkeys(harnesses))
        buckets = [harnesses[i::groups] for i in range(groups)]
        buckets = [b for b in buckets if b]
        jobs = [(scratch, i, b, timeout_s) for i, b in enumerate(buckets)]
        results = {}
        logs = []
        with ThreadPoolExecutor(max_workers=len(jobs)) as ex:
            for idx, hs, out, dt in ex.map(run_group, jobs):
                logs.append(out[-3000:])
                results.update(parse_results(out, hs))
        return results, scratch, logs
    finally:
        if own:
            shutil.rmtree(scratch, ignore_errors=True)


def concrete_values(scratch, harness, idx=0):
    """re-run a failed harness with concrete playback and return the byte vectors Kani chose"""
    env = dict(B.ENV, CARGO_TARGET_DIR=os.path.join(CACHE, f"kani-target-{idx}"))
    cmd = ["cargo", "kani", "--no-default-features", "--lib", "-Z", "stubbing", "-Z", "concrete-playback", "--concrete-playback=print", "--harness", harness, "--output-format", "terse"]
    p = subprocess.run(cmd, cwd=scratch, env=env, stdout=subprocess.PIPE, stderr=subprocess.STDOUT, text=True, timeout=1800)
    # one playback test per cover property and per failed check: keep the ones generated for failed checks
    tests = []
    for blk in re.split(r"Concrete playback unit test for", p.stdout)[1:]:
        m = re.search(r"Check for `(\w+)`", blk)
        kind = m.group(1) if m else "?"
        vecs = [[int(x) for x in v.split(",") if x.strip()] for v in re.findall(r"vec!\[([\d,\s]*)\],", blk)]
        if kind != "cover" and vecs:
            tests.append(vecs)
    return tests, p.stdout


def f32_expr(bits):
    """an svgdx expression that evaluates to the f32 with these bits"""
    v = struct.unpack("<f", struct.pack("<I", bits))[0]
    if v != v:
        return "0/0"
    if v == float("inf"):
        return "1/0"
    if v == float("-inf"):
        return "-1/0"
    s = ("%.60f" % v).rstrip("0")
    if s.endswith("."):
        s += "0"
    return s if v >= 0 else f"(0 - {s[1:]})" if s.startswith("-") else s


def run_c01(tier, seed):
    t0 = time.time()
    names = list(FN_TOTAL)
    # both tiers run every claimed harness (a defect in an unsampled built-in would otherwise be missed);
    # the thorough tier only allows more time per harness
    harnesses = ["k_fn_total_" + n for n in names] + list(FN_TOTAL2) + list(FN_TOTAL3)
    scratch = prepare_scratch()
    violations, known_hits, replays = [], [], 0
    try:
        results, _, logs = run_harnesses(harnesses, groups=8, timeout_s=900 if tier == "thorough" else 300, scratch=scratch)
        meta = B.ensure_built(None)
        nat = E.Runner(meta["native"], native=True)
        natrel = None
        failed = [h for h, r in results.items() if r["status"] == "failed"]
        for h in failed:
            tests, raw = concrete_values(scratch, h)
            fn = FN_TOTAL2[h][0] if h in FN_TOTAL2 else FN_TOTAL3[h] if h in FN_TOTAL3 else h[len("k_fn_total_"):]
            confirmed = False
            doc, status, vals = "", "no concrete test produced", []
            for vecs in tests:
                vals = []
                if h in FN_TOTAL2:
                    # harness draws: exactly the symbolic f32 arguments, in order
                    for v in vecs[:FN_TOTAL2[h][1]]:
                        if len(v) == 4:
                            vals.append(int.from_bytes(bytes(v), "little"))
                    args = ", ".join([f32_expr(b) for b in vals] + [str(c) for c in FN_TOTAL2[h][2]])
                else:
                    # harness draws: n (usize), then n f32 values
                    n = int.from_bytes(bytes(vecs[0]), "little") if len(vecs[0]) == 8 else 0
                    for v in vecs[1:1 + n]:
                        if len(v) == 4:
                            vals.append(int.from_bytes(bytes(v), "little"))
                    args = ", ".join(f32_expr(b) for b in vals)
                doc = f'<svg><text xy="0" text="{{{{{fn}({args})}}}}"/></svg>'
                r = nat.run([doc], ())
                replays += 1
                status = r.docs[0]["status"]
                if status in ("panic", "abort"):
                    confirmed = True
                    break
            if not confirmed:
                # CBMC over-approximates some float operations (notably `%`), and its trace may carry no usable values (e.g. a failure
                # with zero arguments): the solver has decided that a failing input exists; look for a concrete witness natively among
                # the special values of each argument (and neighbours of the trace values); report only what reproduces.
                import itertools, struct
                def f32(bits):
                    return struct.unpack("<f", struct.pack("<I", bits & 0xFFFFFFFF))[0]
                special = ["0", "1", "(0 - 1)", "0.5", "(0 - 0.5)", "2", "(0 - 2)", "90", "(0 - 90)", "180", "(0 - 180)", "270", "(0 - 270)", "360", "(0 - 360)", "450", "(0 - 450)",
                           "16777216", "(0 - 16777216)", "2147483648", "(0 - 2147483648)", "4294967296", "1e38", "(0 - 1e38)", "1e-38", "(0 - 0.000001)", "0.000001", "(1 / 0)", "(0 - 1 / 0)", "(0 / 0)"]
                short = ["0", "1", "(0 - 1)", "0.5", "2147483648", "(0 - 0.000001)", "(1 / 0)", "(0 / 0)"]
                combos = []
                if vals:
                    per_arg = []
                    for b_ in vals:
                        v = f32(b_)
                        near = []
                        if v == v and abs(v) < 1e30:
                            for q in (1, 45, 90, 360):
                                k = round(v / q) * q
                                near += [f32_expr(struct.unpack("<I", struct.pack("<f", float(k)))[0])]
                        per_arg.append(list(dict.fromkeys([f32_expr(b_)] + near + special)))
                    combos = itertools.islice(itertools.product(*per_arg), 30000)
                else:
                    nsym = FN_TOTAL2[h][1] if h in FN_TOTAL2 else None
                    lens = [nsym] if nsym is not None else [0, 1, 2, 3]
                    combos = itertools.chain.from_iterable(itertools.product(*([special if n <= 1 else short] * n)) for n in lens)
                tried = 0
                for combo in combos:
                    tried += 1
                    args = ", ".join(list(combo) + ([str(c) for c in FN_TOTAL2[h][2]] if h in FN_TOTAL2 else []))
                    doc = f'<svg><text xy="0" text="{{{{{fn}({args})}}}}"/></svg>'
                    r = nat.run([doc], ())
                    replays += 1
                    status = r.docs[0]["status"]
                    if status in ("panic", "abort"):
                        confirmed = True
                        results[h]["witness_search"] = f"trace values did not reproduce; witness found natively after {tried} candidate(s)"
                        break
            if confirmed:
                from . import build as B2
                m2 = B2.ensure_built(None, want_release=True, verbose=False)
                natrel = natrel or E.Runner(m2["native_release"], native=True)
                rr = natrel.run([doc], ())
                body = dict(property="C01", harness=h, function=fn, argument_bits=vals, document=doc, native_dev=r.docs[0], native_release=rr.docs[0], failed_checks=results[h]["failed"],
                            how="run the document through svgdx::transform_str of the unmodified build under catch_unwind")
                d = os.path.join(VERIF, "replays", "C01")
                os.makedirs(d, exist_ok=True)
                p = os.path.join(d, hashlib.sha1(json.dumps(body, sort_keys=True, default=str).encode()).hexdigest()[:12] + ".json")
                json.dump(body, open(p, "w"), indent=1, default=str)
                violations.append((h, p, doc, status))
            else:
                results[h]["status"] = "unconfirmed"
                results[h]["note"] = f"counterexample {doc} does not crash the real build ({status}); failed checks: {results[h]['failed'][:2]}"
        nat.close()
        if natrel:
            natrel.close()
    finally:
        shutil.rmtree(scratch, ignore_errors=True)
    from .harness import load_known, VERIF as _V
    known = [k for k in load_known() if k.get("property") == "C01" and k.get("status", "open") == "open"]
    exit_code = 0
    new_v = []
    for (h, p, doc, status) in violations:
        hit = next((k for k in known if k["role"] == "C01/" + h), None)
        if hit:
            print(f"KNOWN-FINDING: property=C01 {hit['what']}", flush=True)
        else:
            new_v.append((h, p, doc, status))
    for (h, p, doc, status) in new_v:
        print(f"VIOLATION property=C01 replay={p}", flush=True)
        print(f"  harness={h} document={doc} native={status}", flush=True)
        exit_code = 1
    ok = [h for h, r in results.items() if r["status"] in ("success", "nan-only")]
    inconc = [h for h, r in results.items() if r["status"] in ("inconclusive", "unconfirmed")]
    if inconc and exit_code == 0:
        print(f"INCONCLUSIVE property=C01: {len(inconc)} harness(es) without a verdict: " + ", ".join(f"{h} ({results[h].get('note') or results[h]['status']})" for h in inconc[:6]), flush=True)
        exit_code = 2
    wall = time.time() - t0
    cov = dict(
        states=max(1, len(ok)), transitions=max(1, sum(1 for _ in results)), traces_validated_against_impl=replays,
        samples=[dict(harness=h, real_function="functions::eval_function(Function::%s, ..)" % (FN_TOTAL2[h][0] if h in FN_TOTAL2 else FN_TOTAL3[h] if h in FN_TOTAL3 else h[len("k_fn_total_"):]), inputs="0..=3 arguments, each any f32 bit pattern (kani::any)", verdict=results[h]["status"],
                      cbmc_time_s=results[h]["time"], stubs=results[h]["stubs"]) for h in list(results)[:6]],
        obligations=len(results), discharged=len(ok), harness_results={h: dict(status=r["status"], time_s=r["time"], failed_checks=r["failed"][:3], cover=r.get("cover")) for h, r in results.items()},
        solver="CBMC 6.11.0 (CaDiCaL) via Kani 0.68.0, default unwinding assertions on, #[kani::unwind(6)]",
        solver_time_s=round(sum((r["time"] or 0) for r in results.values()), 1), functions_encoded=["functions::eval_function", "expression::ExprValue::{number_list,one_number,number_pair,number_triple,flatten,pair}"],
        bounds="argument lists of 0..=3 numbers, every f32 bit pattern incl. NaN, infinities, subnormals; one harness per built-in (generic instantiation: none); unwind 6",
        excluded=dict(EXCLUDED, **{"(everything else)": "the token-level evaluator, tokenizer and everything byte-level (DESIGN.md §2)"}),
        stubs=["alloc::fmt::format -> empty string (error message text is not the subject)", "f32::{tan,asin,acos,atan,atan2,hypot} -> arbitrary f32 (k_fn_total3_* only)"], nan_check_filter="failed checks of class 'NaN on <op>' are not counted: producing NaN is defined behaviour in Rust",
        exhaustive=False, new_violations=len(new_v), inconclusive=inconc)
    ev = dict(property_id="C01", tier=tier, seed=int(seed), level="model_checking", coverage=cov,
              assumptions=["Kani's model of the Rust standard library and of f32 operations (CBMC float semantics) is faithful", "alloc::fmt::format is stubbed",
                           "numeric slice of C01 only: byte-level inputs, syntax, nesting depth, liveness and the CLI/server front-ends are NOT covered by this check"],
              wall_s=round(wall, 2), violations=len(new_v))
    os.makedirs(os.path.join(VERIF, "evidence"), exist_ok=True)
    json.dump(ev, open(os.path.join(VERIF, "evidence", "C01.json"), "w"), indent=1, default=str)
    print(f"[C01] tier={tier} seed={seed} harnesses={len(results)} verified={len(ok)} failed={len(violations)} inconclusive={len(inconc)} cbmc={cov['solver_time_s']}s wall={wall:.0f}s exit={exit_code}", flush=True)
    return exit_code


def confirm_kernel(scratch, harness, idx=0):
    """native replay of a kernel counterexample: Kani writes the concrete test into the scratch source, `cargo kani playback`
    runs it as an ordinary test against the real code; True when the test fails natively (assertion reproduced)"""
    env = dict(B.ENV, CARGO_TARGET_DIR=os.path.join(CACHE, f"kani-target-{idx}"))
    cmd = ["cargo", "kani", "--no-default-features", "--lib", "-Z", "stubbing", "-Z", "concrete-playback", "--concrete-playback=inplace", "--harness", harness, "--output-format", "terse"]
    p = subprocess.run(cmd, cwd=scratch, env=env, stdout=subprocess.PIPE, stderr=subprocess.STDOUT, text=True, timeout=1800)
    env2 = dict(B.ENV)
    q = subprocess.run(["cargo", "kani", "playback", "-Z", "concrete-playback", "--lib", "--no-default-features", "--", "kani_concrete_playback_" + harness], cwd=scratch, env=env2,
                       stdout=subprocess.PIPE, stderr=subprocess.STDOUT, text=True, timeout=1800)
    failed = bool(re.search(r"test result: FAILED|panicked at", q.stdout))
    ran = bool(re.search(r"running [1-9]\d* test", q.stdout))
    return (failed and ran), (p.stdout[-1500:] + "\n---- playback ----\n" + q.stdout[-2500:])


def kernels_for(prop):
    """supporting bit-precise obligations of an SX property (thorough tier); returns (evidence dict, confirmed failures)"""
    hs = KERNELS.get(prop)
    if not hs:
        return None, []
    scratch = prepare_scratch()
    confirmed = []
    try:
        results, _, logs = run_harnesses(hs, groups=min(8, len(hs)), scratch=scratch)
        for h, r in results.items():
            if r["status"] == "failed":
                ok, log = confirm_kernel(scratch, h)
                r["native_playback_reproduces"] = ok
                if ok:
                    body = dict(property=prop, harness=h, failed_checks=r["failed"], playback_log=log,
                                how="cargo kani --harness %s -Z concrete-playback --concrete-playback=inplace on a copy of /repo with /verif/kani/*.rs appended, then cargo kani playback" % h)
                    d = os.path.join(VERIF, "replays", prop)
                    os.makedirs(d, exist_ok=True)
                    p = os.path.join(d, "kani-" + h + ".json")
                    json.dump(body, open(p, "w"), indent=1)
                    confirmed.append((h, p))
                else:
                    r["status"] = "unconfirmed"
    finally:
        shutil.rmtree(scratch, ignore_errors=True)
    part = dict(engine="Kani 0.68.0 / CBMC 6.11.0", harnesses={h: dict(status=r["status"], time_s=r["time"], failed_checks=r["failed"][:3]) for h, r in results.items()},
                note="bit-precise (IEEE single precision) kernel obligations supporting the exact-arithmetic abstraction of the SX engine; domains: multiples of 1/8 with |x| <= 4096 unless stated")
    return part, confirmed


def replay(prop, path):
    body = json.load(open(path))
    meta = B.ensure_built(None)
    nat = E.Runner(meta["native"], native=True)
    r = nat.run([body["document"]], ())
    nat.close()
    print("document:", body["document"])
    print("native:", r.docs[0])
    if r.docs[0]["status"] in ("panic", "abort"):
        print(f"VIOLATION property={prop} replay={path}")
        return 1
    print("no crash on this replay")
    return 0
