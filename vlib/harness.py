"""Property runner for SX-engine checks: template generation, parallel exploration, native confirmation of
counterexamples, witness replays, known findings, replay files, evidence, exit codes (DESIGN.md §6)."""
import importlib, json, multiprocessing, os, random, sys, time, hashlib, traceback
from fractions import Fraction
from . import engine as E
from . import build as B

VERIF = B.VERIF
_ctx = None
_build = None


def _init(buildmeta):
    global _ctx, _build
    _build = buildmeta
    _ctx = None


def ctx():
    global _ctx
    if _ctx is None:
        _ctx = E.Ctx(_build)
    return _ctx


def load_known():
    p = os.path.join(VERIF, "known_findings.json")
    if not os.path.exists(p):
        return []
    return json.load(open(p)).get("findings", [])


def _jsonable(x):
    if isinstance(x, Fraction):
        return E.frac_str(x)
    if isinstance(x, (list, tuple)):
        return [_jsonable(y) for y in x]
    if isinstance(x, dict):
        return {str(k): _jsonable(v) for k, v in x.items()}
    return x


def work_one(job):
    """explore one template in a worker; confirm findings natively; returns a picklable result"""
    prop, tdesc, opts = job
    t0 = time.time()
    res = dict(stats={}, confirmed=[], unconfirmed=[], undecided=[], errors=[], witness=0, witness_mismatch=[], tdesc=tdesc)
    if time.time() > float(os.environ.get("VERIF_RUN_DEADLINE", "inf")):
        res.update(skipped=True, wall=0.0, z3=(0, 0.0))
        return res
    try:
        mod = importlib.import_module("props." + prop.lower())
        tpl = mod.build(tdesc, wrong=opts.get("wrong", False))
        c = ctx()
        findings, seen = E.explore(c, tpl, res["stats"])
        res["family"] = tpl.family
        res["role"] = tpl.role
        if not seen and not findings:
            # a template that explored nothing decides nothing: never a silent pass
            raise RuntimeError(f"template {tpl.name} produced no path (vacuous)")
        # ---- witness replay: SX output with tokens concretised must equal the native output byte for byte
        if not opts.get("wrong") and opts.get("witness", True):
            for r in list(seen.values())[: opts.get("witness_paths", 2)]:
                if r.died:
                    continue
                off = r.offgrid
                vals = [Fraction(v[3]) for v in r.vars]
                nr = c.native.run(E.concrete_docs(tpl, vals), (), flags=tpl.flags)
                ok = True
                for a, b in zip(r.docs, nr.docs):
                    if a["status"] != b["status"]:
                        ok = False
                    elif a["status"] == "ok" and off == 0 and E.concretize_output(r, a["output"]) != b["output"]:
                        ok = False
                if ok:
                    res["witness"] += 1
                else:
                    # the rewritten build and the real build disagree on this valuation (e.g. arithmetic carried out in a
                    # type the rewriter abstracts): the real build is what counts - if ITS output violates the property
                    # for these values, that is a violation reproduced natively; otherwise the run stays inconclusive
                    try:
                        bad, nr2, docs2, err2 = E.native_check(c, tpl, vals)
                    except Exception:
                        bad, err2 = None, "native check failed"
                    if bad and not err2:
                        res["confirmed"].append(dict(tpl=tpl.name, family=tpl.family, role=tpl.role, obl=bad[0], violated=bad, vals=_jsonable(vals), docs=docs2, flags=tpl.flags,
                                                     native=[(d["status"], d["msg"][:300], (d["output"] or "")[:3000]) for d in nr2.docs], neg="(witness replay on the unmodified build)", tdesc=tdesc))
                    else:
                        res["witness_mismatch"].append(dict(tpl=tpl.name, vals=_jsonable(vals), sx=[(d["status"], E.concretize_output(r, d["output"] or "")[:600], d["msg"][:200]) for d in r.docs],
                                                            native=[(d["status"], (d["output"] or "")[:600], d["msg"][:200]) for d in nr.docs]))
        # ---- confirm counterexamples on the unmodified build
        done_roles = set()
        for f in findings:
            if f["kind"] == "undecided":
                res["undecided"].append(dict(tpl=f["tpl"], obl=f["obl"], detail=f["detail"]))
                continue
            if f["kind"] == "oracle-error":
                res["errors"].append(dict(tpl=f["tpl"], detail=f["detail"]))
                continue
            key = (f["role"], f["obl"])
            if key in done_roles:
                continue
            cands = []
            if f.get("vals") is not None:
                cands.append(f["vals"])
            if f.get("alt") is not None and f.get("alt") not in cands:
                cands.append(f["alt"])
            if f.get("sxvals") is not None and f.get("sxvals") not in cands:
                cands.append(f["sxvals"])
            if f.get("mode") == "euf":
                # a model of the uninterpreted-operations query fixes no concrete arithmetic: a violation found there is
                # confirmed on the real build with a few sign/magnitude patterns in the stated domain
                pats = [[-7, 3, -2.5, 5, -1.5], [7, -3, 2.5, -5, 1.5], [-3, -7, -5, -2, -9], [9, 4, 7, 2, 5], [-0.5, 8, -12, 3, -4], [6, -2.5, -7, 1.5, 11]]
                for p in pats:
                    v = [Fraction(p[k % len(p)]) for k in range(len(tpl.vars))]
                    if v not in cands:
                        cands.append(v)
            confirmed = False
            why = ""
            for vals in cands:
                bad, nr, docs, err = E.native_check(c, tpl, vals)
                if err:
                    why = err
                    continue
                if bad:
                    done_roles.add(key)
                    res["confirmed"].append(dict(tpl=tpl.name, family=tpl.family, role=tpl.role, obl=f["obl"], violated=bad, vals=_jsonable(vals), docs=docs, flags=tpl.flags,
                                                 native=[(d["status"], d["msg"][:300], (d["output"] or "")[:3000]) for d in nr.docs], neg=f.get("neg", ""), tdesc=tdesc))
                    confirmed = True
                    break
                why = "native run satisfies the property for this valuation"
            if not confirmed and f.get("abstract"):
                res["undecided"].append(dict(tpl=f["tpl"], obl=f["obl"], detail="exact query undecided; the model of the abstract query does not violate the property on the real build"))
            elif not confirmed:
                res["unconfirmed"].append(dict(tpl=tpl.name, role=tpl.role, obl=f["obl"], vals=_jsonable(f.get("vals")), why=why, kind=f["kind"], neg=f.get("neg", "")[:300]))
    except Exception:
        res["errors"].append(dict(tpl=str(tdesc)[:200], detail=traceback.format_exc()[-2000:]))
    res["wall"] = time.time() - t0
    c = ctx()
    res["z3"] = (c.z3.n, c.z3.t)
    c.z3.n = 0
    c.z3.t = 0.0
    return res


def merge_stats(dst, src):
    for k, v in src.items():
        if k == "symfns":
            d = dst.setdefault("symfns", {})
            for f, n in v.items():
                d[f] = d.get(f, 0) + n
        elif k == "sample":
            dst.setdefault("samples", [])
            if len(dst["samples"]) < 6:
                dst["samples"].append(v)
        elif isinstance(v, (int, float)):
            dst[k] = dst.get(k, 0) + v


def run_property(prop, tier, seed, workers=None, extra_evidence=None, kani_part=None):
    """returns exit code"""
    t0 = time.time()
    mod = importlib.import_module("props." + prop.lower())
    try:
        meta = B.ensure_built("all" if tier == "thorough" else "lib")
    except B.BuildError as e:
        print(f"INCONCLUSIVE property={prop}: build of the rewritten crate failed (the check cannot run on this tree)\n{e}", flush=True)
        write_evidence(prop, tier, seed, mod, dict(stats={}, note="build failed: " + str(e)[-1500:]), t0, violations=0, inconclusive=True)
        return 2
    st = meta.get("selftest", {}).get("all" if tier == "thorough" else "lib") or {}
    selftest_ok = st.get("rc") == 0
    kani_bad = []
    if tier == "thorough" and kani_part is None:
        from . import kani_engine
        if prop in kani_engine.KERNELS:
            print(f"[{prop}] running the supporting Kani kernel harnesses ({', '.join(kani_engine.KERNELS[prop])})", file=sys.stderr, flush=True)
            kani_part, kani_bad = kani_engine.kernels_for(prop)
    tds = mod.templates(tier, seed)
    # run-level wall cap: a change that makes most queries undecidable within the per-query cap must end in a verdict
    # (violation, or INCONCLUSIVE) within bounded time, never in an open-ended run; templates not reached are counted
    run_cap = float(os.environ.get("VERIF_RUN_CAP_S", "1500" if tier == "quick" else "21600"))
    os.environ["VERIF_RUN_DEADLINE"] = str(t0 + run_cap)
    jobs = [(prop, td, {}) for td in tds]
    # sensitivity twins: deliberately wrong oracles that must be refuted
    twin_tds = mod.twins(tier, seed) if hasattr(mod, "twins") else []
    jobs += [(prop, dict(td, _twin=True), {"wrong": True}) for td in twin_tds]
    workers = workers or int(os.environ.get("VERIF_WORKERS", "14"))
    results = []
    if workers <= 1 or len(jobs) < 4:
        _init(meta)
        for j in jobs:
            results.append(work_one(j))
        if _ctx:
            _ctx.close()
    else:
        with multiprocessing.Pool(min(workers, len(jobs)), initializer=_init, initargs=(meta,)) as pool:
            for r in pool.imap_unordered(work_one, jobs, chunksize=max(1, min(16, len(jobs) // (workers * 8) or 1))):
                results.append(r)
    if os.environ.get("VERIF_PROFILE"):
        for r in sorted(results, key=lambda r: -r.get("wall", 0))[:8]:
            print(f"[profile] {r.get('wall', 0):.1f}s {r.get('tdesc')}", file=sys.stderr, flush=True)
    agg = {}
    confirmed, unconfirmed, undecided, errors, mism = [], [], [], [], []
    witness = 0
    twin_refuted = 0
    twin_total = 0
    fam = {}
    zn, zt = 0, 0.0
    # results of imap_unordered lost the job association; work_one reports tdesc, twins are recognised via a marker
    skipped = sum(1 for r in results if r.get("skipped"))
    results = [r for r in results if not r.get("skipped")]
    for r in results:
        is_twin = r.get("tdesc") is not None and isinstance(r["tdesc"], dict) and r["tdesc"].get("_twin")
        zn += r["z3"][0]
        zt += r["z3"][1]
        if is_twin:
            twin_total += 1
            if r["confirmed"] or r["unconfirmed"]:
                twin_refuted += 1
            errors += r["errors"]
            continue
        merge_stats(agg, r["stats"])
        f = fam.setdefault(r.get("family", "?"), dict(templates=0, paths=0, obligations=0, discharged=0, non_exhaustive=0))
        f["templates"] += 1
        f["paths"] += r["stats"].get("paths", 0)
        f["obligations"] += r["stats"].get("obligations", 0)
        f["discharged"] += r["stats"].get("discharged", 0)
        f["non_exhaustive"] += r["stats"].get("non_exhaustive_templates", 0)
        confirmed += r["confirmed"]
        unconfirmed += r["unconfirmed"]
        undecided += r["undecided"]
        errors += r["errors"]
        mism += r["witness_mismatch"]
        witness += r["witness"]
    # ---- classify confirmed violations against the committed known-findings list
    known = [k for k in load_known() if k.get("property") == prop and k.get("status", "open") == "open"]
    new_viol, known_hits = [], {}
    for cf in confirmed:
        hit = None
        for k in known:
            if k["role"] == cf["role"] or (k.get("role_prefix") and cf["role"].startswith(k["role_prefix"])):
                hit = k
                break
        if hit:
            known_hits.setdefault(hit["role"], (hit, []))[1].append(cf)
        else:
            new_viol.append(cf)
    exit_code = 0
    for role, (k, lst) in known_hits.items():
        print(f"KNOWN-FINDING: property={prop} {k['what']} [{len(lst)} template(s), e.g. {lst[0]['tpl']}]", flush=True)
    # release-profile replay + replay files for new violations (deduplicated by role)
    printed = {}
    for cf in new_viol:
        if cf["role"] in printed:
            printed[cf["role"]]["more"] += 1
            continue
        path = write_replay(prop, cf)
        cf["replay"] = path
        printed[cf["role"]] = dict(cf=cf, more=0)
    if printed:
        exit_code = 1
        relctx = None
        for role, d in list(printed.items())[:40]:
            cf = d["cf"]
            print(f"VIOLATION property={prop} replay={cf['replay']}", flush=True)
            print(f"  template={cf['tpl']} obligation={cf['obl']} violated={cf['violated']} values={cf['vals']} (+{d['more']} more of role '{role}')", flush=True)
            print(f"  document: {cf['docs'][0][:400]}", flush=True)
            print(f"  native: {cf['native'][0][0]} {cf['native'][0][1][:200]} {cf['native'][0][2][:400]}", flush=True)
    for (kh, kp) in kani_bad:
        kn = [k for k in known if k["role"] == f"{prop}/kernel/{kh}"]
        if kn:
            print(f"KNOWN-FINDING: property={prop} {kn[0]['what']}", flush=True)
        else:
            print(f"VIOLATION property={prop} replay={kp}", flush=True)
            print(f"  Kani kernel harness {kh} fails and its counterexample reproduces natively (cargo kani playback)", flush=True)
            exit_code = 1
    if kani_part and any(v["status"] in ("inconclusive", "unconfirmed") for v in kani_part["harnesses"].values()):
        print(f"NOTE property={prop}: Kani kernel harness(es) without a verdict: " + ", ".join(k for k, v in kani_part["harnesses"].items() if v["status"] in ("inconclusive", "unconfirmed")), flush=True)
    if skipped:
        print(f"INCONCLUSIVE property={prop}: the run time cap ({run_cap:.0f} s) was reached; {skipped} of {len(jobs)} templates were not explored (nothing is claimed about them)", flush=True)
        if exit_code == 0:
            exit_code = 2
    if twin_total and twin_refuted < twin_total:
        print(f"INCONCLUSIVE property={prop}: {twin_total - twin_refuted} of {twin_total} deliberately wrong oracle twins were not refuted (machinery error)", flush=True)
        if exit_code == 0:
            exit_code = 2
    if errors:
        print(f"INCONCLUSIVE property={prop}: {len(errors)} internal errors, first: {errors[0]['detail'][-800:]}", flush=True)
        if exit_code == 0:
            exit_code = 2
    if unconfirmed:
        print(f"NOTE property={prop}: {len(unconfirmed)} solver counterexample(s) did not reproduce on the unmodified build (abstraction/oracle mismatch), first: {json.dumps(unconfirmed[0])[:700]}", flush=True)
        if exit_code == 0:
            exit_code = 2
    if mism:
        print(f"NOTE property={prop}: {len(mism)} witness replay(s) differ between the rewritten and the unmodified build, first: {json.dumps(mism[0])[:900]}", flush=True)
        if exit_code == 0:
            exit_code = 2
    if not selftest_ok:
        print(f"INCONCLUSIVE property={prop}: the repository's own tests do not pass on the rewritten crate: {st}", flush=True)
        if exit_code == 0:
            exit_code = 2
    if undecided:
        print(f"NOTE property={prop}: {len(undecided)} obligation(s) undecided by the solver within the time cap (counted as not discharged), first: {undecided[0]}", flush=True)
    cov = dict(stats=agg, families=fam, witness=witness, confirmed=len(confirmed), new_violations=len(new_viol), known_hits={k: len(v[1]) for k, v in known_hits.items()},
               unconfirmed=len(unconfirmed), undecided=len(undecided), skipped_templates=skipped, run_cap_s=run_cap, twins=(twin_refuted, twin_total), z3=(zn, round(zt, 2)), selftest=st, build=meta.get("hash"),
               templates=len(tds), viol_samples=[dict(tpl=c["tpl"], obl=c["obl"], vals=c["vals"], doc=c["docs"][0][:300]) for c in new_viol[:3]])
    if extra_evidence:
        cov.update(extra_evidence)
    write_evidence(prop, tier, seed, mod, cov, t0, violations=len(printed), inconclusive=(exit_code == 2), kani_part=kani_part)
    dt = time.time() - t0
    print(f"[{prop}] tier={tier} seed={seed} templates={len(tds)} paths={agg.get('paths', 0)} obligations={agg.get('obligations', 0)} discharged={agg.get('discharged', 0)} "
          f"queries={zn} z3={zt:.1f}s witness-replays={witness} twins={twin_refuted}/{twin_total} violations={len(printed)} known={len(known_hits)} wall={dt:.1f}s exit={exit_code}", flush=True)
    return exit_code


def write_replay(prop, cf):
    d = os.path.join(VERIF, "replays", prop)
    os.makedirs(d, exist_ok=True)
    body = dict(property=prop, template=cf["tpl"], family=cf["family"], role=cf["role"], obligation=cf["obl"], violated=cf["violated"], values=cf["vals"],
                documents=cf["docs"], flags=cf["flags"], native_result=cf["native"], negated_property=cf.get("neg", ""), tdesc=cf["tdesc"],
                how="documents are ordinary svgdx input; run them through svgdx::transform_str of the unmodified build; `check " + prop + " --replay <this file>` re-evaluates the oracle")
    h = hashlib.sha1(json.dumps(body, sort_keys=True, default=str).encode()).hexdigest()[:12]
    p = os.path.join(d, h + ".json")
    json.dump(body, open(p, "w"), indent=1, default=str)
    return p


def replay_file(prop, path):
    """re-run a stored counterexample against the current /repo build; exit 1 if it still violates"""
    body = json.load(open(path))
    mod = importlib.import_module("props." + prop.lower())
    meta = B.ensure_built(None)
    _init(meta)
    c = ctx()
    tpl = mod.build(body["tdesc"])
    vals = [Fraction(x) for x in body["values"]]
    bad, nr, docs, err = E.native_check(c, tpl, vals)
    print("documents:", docs)
    print("native:", [(d["status"], d["msg"][:200], (d["output"] or "")[:1500]) for d in nr.docs])
    c.close()
    if err:
        print("oracle error:", err)
        return 2
    if bad:
        print(f"VIOLATION property={prop} replay={path}")
        print("violated obligations:", bad)
        return 1
    print("property holds on this replay")
    return 0


def write_evidence(prop, tier, seed, mod, cov, t0, violations=0, inconclusive=False, kani_part=None):
    os.makedirs(os.path.join(VERIF, "evidence"), exist_ok=True)
    st = cov.get("stats", {})
    anchors = getattr(mod, "ANCHOR_PREFIXES", None)
    symf = st.get("symfns", {})
    fl = sorted(symf.items(), key=lambda kv: -kv[1])
    if anchors:
        fl_anch = [(f, n) for f, n in fl if any(f.startswith(a) for a in anchors)]
    else:
        fl_anch = fl
    level = getattr(mod, "LEVEL", "model_checking")
    samples = st.get("samples", [])
    if not samples:
        samples = [dict(note="no symbolic obligation sample recorded in this run")]
    coverage = dict(
        states=max(1, st.get("paths", 0)) if st else 1,
        transitions=max(1, st.get("branches", 0)) if st else 1,
        traces_validated_against_impl=cov.get("witness", 0) + cov.get("confirmed", 0),
        samples=samples,
        programs=max(1, cov.get("templates", 0)),
        disagreements_checked=cov.get("confirmed", 0) + cov.get("unconfirmed", 0),
        obligations=st.get("obligations", 0),
        discharged=st.get("discharged", 0),
        ground_obligations=st.get("ground", 0),
        undecided=cov.get("undecided", 0),
        solver_queries=cov.get("z3", (0, 0))[0],
        solver_time_s=cov.get("z3", (0, 0))[1],
        solver="z3 4.8.12 (/usr/bin/z3), push/pop over one process per worker; sat models replayed on the unmodified build",
        branch_negation_queries=st.get("negations", 0),
        sx_runs=st.get("runs", 0),
        templates=cov.get("templates", 0),
        families=cov.get("families", {}),
        non_exhaustive_templates=st.get("non_exhaustive_templates", 0),
        exhaustive=False,
        inexact_branches=st.get("inexact_branches", 0),
        inexact_obligations=st.get("inexact_obligations", 0),
        fstr_offgrid=st.get("fstr_offgrid", 0),
        concretizations=st.get("concretized", 0),
        sensitivity_twins_refuted="%d/%d" % tuple(cov.get("twins", (0, 0))),
        functions_executed_on_symbolic_operands=[f"{f} ({n} paths)" for f, n in fl_anch[:60]],
        bounds=getattr(mod, "BOUNDS", ""),
        known_finding_hits=cov.get("known_hits", {}),
        new_violations=cov.get("new_violations", 0),
        violation_samples=cov.get("viol_samples", []),
        selftest_rewritten_crate=cov.get("selftest", {}),
        repo_tree_hash=cov.get("build"),
        inconclusive=inconclusive,
        note=cov.get("note", ""),
    )
    if kani_part:
        coverage["kani"] = kani_part
    for k, v in cov.items():
        if k.startswith("x_"):
            coverage[k[2:]] = v
    ev = dict(property_id=prop, tier=tier, seed=int(seed), level=level, coverage=coverage,
              assumptions=list(getattr(mod, "ASSUMPTIONS", [])) + COMMON_ASSUMPTIONS, wall_s=round(time.time() - t0, 2), violations=int(violations))
    json.dump(ev, open(os.path.join(VERIF, "evidence", prop + ".json"), "w"), indent=1, default=str)


COMMON_ASSUMPTIONS = [
    "SX rewrite (tools/symx) + shadow runtime (sx/symnum.rs) preserve the crate's semantics: re-validated on every tree by running the repository's own tests on the rewritten crate and by byte-comparing witness outputs with the unmodified build",
    "symbolic numbers range over the dyadic grids and intervals listed under bounds; values off the grid, larger magnitudes, NaN and infinities are outside the claim",
    "real/integer SMT arithmetic stands for f32 arithmetic only on terms the runtime proved exact (grain + magnitude <= 24 bits); inexact terms are counted in inexact_*",
    "number formatting (types::fstr) is treated as the identity on multiples of 1/8 (checked per run: fstr_offgrid)",
    "document structure is enumerated from the stated template grammars; only numbers are decided by the solver",
]


def sample_quota(items, key, quota, seed):
    """seeded per-family subset: at most `quota` items per key(item)"""
    rnd = random.Random(seed)
    groups = {}
    for it in items:
        groups.setdefault(key(it), []).append(it)
    out = []
    for k in sorted(groups, key=repr):
        g = groups[k]
        q = quota.get(k[0] if isinstance(k, tuple) else k, 8) if isinstance(quota, dict) else quota
        if len(g) > q:
            g = rnd.sample(g, q)
        out += g
    return out
