"""maps a property id to its engine(s)"""
import importlib, os, sys
from . import harness

SX_PROPS = ["C04", "C08", "C09", "C10", "C11", "C12", "C13", "C14", "C15", "C16", "C17", "C18", "C19"]


def run(prop, tier, seed, replay=None, workers=None):
    if replay:
        if prop == "C01":
            from . import kani_engine
            return kani_engine.replay(prop, replay)
        return harness.replay_file(prop, replay)
    if prop == "C01":
        from . import kani_engine
        return kani_engine.run_c01(tier, seed)
    if prop in SX_PROPS:
        return harness.run_property(prop, tier, seed, workers=workers)
    print(f"property {prop} is not claimed (see MANIFEST.json not_applicable)")
    return 2
