// symx: mechanical rewrite of a crate's sources so that every `f32` becomes the shadow number type
// `symnum::Sx` (concrete value + optional symbolic term).  Nothing else of the code is changed:
// control flow, strings, containers, XML handling and error handling stay the repository's code.
//
// usage: symx <root-path: crate|svgdx> <mode: lib|tests> <file>...
//   lib mode additionally
//     * inserts `let _sx_g = crate::symnum::enter("<file>::<Type>::<fn>");` at the top of every
//       non-const fn body (evidence: which real functions computed on symbolic operands; step budget)
//     * adds `pub mod symnum;` to lib.rs
//     * guards `types::fstr` so that a symbolic value is printed as its token
use quote::quote;
use std::fs;
use syn::visit_mut::{self, VisitMut};
use syn::{parse_quote, Expr, ExprCast, ExprLit, Lit, Type};

struct Rw {
    root: syn::Path, // `crate` or `svgdx`
    file: String,
    instrument: bool,
    cur_impl: Vec<String>,
    fstr_guarded: bool,
}

fn prim_int(t: &Type) -> Option<String> {
    if let Type::Path(tp) = t {
        if tp.qself.is_none() && tp.path.segments.len() == 1 {
            let id = tp.path.segments[0].ident.to_string();
            if matches!(
                id.as_str(),
                "i8" | "i16" | "i32" | "i64" | "isize" | "u8" | "u16" | "u32" | "u64" | "usize"
            ) {
                return Some(id);
            }
        }
    }
    None
}

fn is_f32_type(t: &Type) -> bool {
    if let Type::Path(tp) = t {
        // f64 is shadowed as well: the model is exact rational arithmetic on a dyadic grid, so the two widths do not differ in it
        return tp.qself.is_none() && (tp.path.is_ident("f32") || tp.path.is_ident("f64"));
    }
    false
}

fn type_name(t: &Type) -> String {
    match t {
        Type::Path(tp) => tp
            .path
            .segments
            .last()
            .map(|s| s.ident.to_string())
            .unwrap_or_default(),
        Type::Reference(r) => type_name(&r.elem),
        _ => "_".to_string(),
    }
}

impl Rw {
    fn instrument_block(&self, name: &str, block: &mut syn::Block) {
        if !self.instrument {
            return;
        }
        let root = &self.root;
        let mut full = self.file.clone();
        for t in &self.cur_impl {
            full.push_str("::");
            full.push_str(t);
        }
        full.push_str("::");
        full.push_str(name);
        let stmt: syn::Stmt = parse_quote!(let _sx_g = #root::symnum::enter(#full););
        block.stmts.insert(0, stmt);
    }
}

impl VisitMut for Rw {
    fn visit_expr_mut(&mut self, e: &mut Expr) {
        // casts: decide on the *original* target type, then recurse into the operand only
        if let Expr::Cast(ExprCast { expr, ty, .. }) = e {
            let root = self.root.clone();
            if is_f32_type(ty) {
                let mut inner = expr.clone();
                self.visit_expr_mut(&mut inner);
                *e = parse_quote!(#root::symnum::ToSx::to_sx(#inner));
                return;
            } else if let Some(id) = prim_int(ty) {
                let mut inner = expr.clone();
                self.visit_expr_mut(&mut inner);
                let m = syn::Ident::new(&format!("to_{}", id), proc_macro2::Span::call_site());
                *e = parse_quote!(#root::symnum::ToPrim::#m(#inner));
                return;
            }
        }
        // `-1.5` is a negation applied to a literal: fold it into one (negative) literal so that it stays
        // usable in const / static initialisers (Neg for Sx is not a const fn)
        if let Expr::Unary(syn::ExprUnary { op: syn::UnOp::Neg(_), expr, .. }) = e {
            if let Expr::Lit(ExprLit { lit: Lit::Float(f), .. }) = &**expr {
                {
                    let root = self.root.clone();
                    let mut digits = f.base10_digits().to_string();
                    if digits.ends_with('.') {
                        digits.push('0');
                    }
                    let lit = syn::LitFloat::new(&format!("{}f32", digits), f.span());
                    *e = parse_quote!(#root::symnum::lit(-#lit));
                    return;
                }
            }
        }
        visit_mut::visit_expr_mut(self, e);
        let root = &self.root;
        match e {
            Expr::Lit(ExprLit {
                lit: Lit::Float(f), ..
            }) => {
                let mut digits = f.base10_digits().to_string();
                if digits.ends_with('.') {
                    digits.push('0');
                }
                let lit = syn::LitFloat::new(&format!("{}f32", digits), f.span());
                *e = parse_quote!(#root::symnum::lit(#lit));
            }
            Expr::Lit(ExprLit {
                lit: Lit::Int(i), ..
            }) if i.suffix() == "f32" || i.suffix() == "f64" => {
                let lit = syn::LitFloat::new(&format!("{}.0f32", i.base10_digits()), i.span());
                *e = parse_quote!(#root::symnum::lit(#lit));
            }
            _ => {}
        }
    }
    fn visit_path_mut(&mut self, p: &mut syn::Path) {
        visit_mut::visit_path_mut(self, p);
        let root = &self.root;
        // bare `f32` (type or first segment of `f32::MAX`)
        if p.leading_colon.is_none() && !p.segments.is_empty() && (p.segments[0].ident == "f32" || p.segments[0].ident == "f64") {
            let rest: Vec<_> = p.segments.iter().skip(1).cloned().collect();
            let mut np: syn::Path = parse_quote!(#root::symnum::Sx);
            for s in rest {
                np.segments.push(s);
            }
            *p = np;
            return;
        }
        // std::f32::consts::X / core::f32::consts::X
        let segs: Vec<String> = p.segments.iter().map(|s| s.ident.to_string()).collect();
        if segs.len() >= 3
            && (segs[0] == "std" || segs[0] == "core")
            && (segs[1] == "f32" || segs[1] == "f64")
            && segs[2] == "consts"
        {
            let rest: Vec<_> = p.segments.iter().skip(3).cloned().collect();
            let mut np: syn::Path = parse_quote!(#root::symnum::consts);
            for s in rest {
                np.segments.push(s);
            }
            *p = np;
        }
    }
    fn visit_item_use_mut(&mut self, u: &mut syn::ItemUse) {
        let s = quote!(#u).to_string();
        if s.contains("std :: f32 :: consts") || s.contains("core :: f32 :: consts") || s.contains("std :: f64 :: consts") || s.contains("core :: f64 :: consts") {
            let root = &self.root;
            let rs = quote!(#root).to_string();
            let ns = s
                .replace("std :: f32 :: consts", &format!("{} :: symnum :: consts", rs))
                .replace("core :: f32 :: consts", &format!("{} :: symnum :: consts", rs))
                .replace("std :: f64 :: consts", &format!("{} :: symnum :: consts", rs))
                .replace("core :: f64 :: consts", &format!("{} :: symnum :: consts", rs));
            *u = syn::parse_str(&ns).expect("use rewrite");
        }
    }
    // don't touch const generic / array-length expressions
    fn visit_type_array_mut(&mut self, t: &mut syn::TypeArray) {
        self.visit_type_mut(&mut t.elem);
    }
    // macro bodies (format!, assert_eq!, vec!, ...) are token streams: handle the common
    // expression-list macros by parsing their arguments as expressions.
    fn visit_macro_mut(&mut self, m: &mut syn::Macro) {
        let name = m
            .path
            .segments
            .last()
            .map(|s| s.ident.to_string())
            .unwrap_or_default();
        if matches!(
            name.as_str(),
            "vec"
                | "assert_eq"
                | "assert_ne"
                | "assert"
                | "format"
                | "println"
                | "print"
                | "write"
                | "writeln"
                | "assert_lt"
                | "assert_le"
                | "assert_gt"
                | "assert_ge"
                | "assert_in_delta"
                | "assert_contains"
                | "assert_not_contains"
                | "eprintln"
                | "panic"
                | "debug_assert"
                | "debug_assert_eq"
        ) {
            use syn::parse::Parser;
            use syn::punctuated::Punctuated;
            let parser = Punctuated::<Expr, syn::Token![,]>::parse_terminated;
            if let Ok(mut args) = parser.parse2(m.tokens.clone()) {
                for a in args.iter_mut() {
                    self.visit_expr_mut(a);
                }
                m.tokens = quote!(#args);
            }
        }
    }
    fn visit_item_impl_mut(&mut self, i: &mut syn::ItemImpl) {
        let mut name = type_name(&i.self_ty);
        if let Some((_, tr, _)) = &i.trait_ {
            let tn = tr
                .segments
                .last()
                .map(|s| s.ident.to_string())
                .unwrap_or_default();
            name = format!("<{} as {}>", name, tn);
        }
        self.cur_impl.push(name);
        visit_mut::visit_item_impl_mut(self, i);
        self.cur_impl.pop();
    }
    fn visit_item_fn_mut(&mut self, f: &mut syn::ItemFn) {
        visit_mut::visit_item_fn_mut(self, f);
        let name = f.sig.ident.to_string();
        if f.sig.constness.is_none() {
            self.instrument_block(&name, &mut f.block);
        }
        if self.instrument && self.file == "types" && name == "fstr" && self.cur_impl.is_empty() {
            // guard: a symbolic value is printed as its token instead of running the decimal formatter
            let arg = match f.sig.inputs.first() {
                Some(syn::FnArg::Typed(pt)) => match &*pt.pat {
                    syn::Pat::Ident(pi) => pi.ident.clone(),
                    _ => panic!("fstr: unexpected argument pattern"),
                },
                _ => panic!("fstr: unexpected signature"),
            };
            let root = &self.root;
            let stmt: syn::Stmt = parse_quote!(if !#arg.is_concrete() { return #root::symnum::fstr_sym(#arg); });
            // after the enter guard
            f.block.stmts.insert(1, stmt);
            self.fstr_guarded = true;
        }
    }
    fn visit_impl_item_fn_mut(&mut self, f: &mut syn::ImplItemFn) {
        visit_mut::visit_impl_item_fn_mut(self, f);
        let name = f.sig.ident.to_string();
        if f.sig.constness.is_none() {
            self.instrument_block(&name, &mut f.block);
        }
    }
}

fn main() {
    let args: Vec<String> = std::env::args().collect();
    if args.len() < 4 {
        eprintln!("usage: symx <crate|svgdx> <lib|tests> <file>...");
        std::process::exit(2);
    }
    let root: syn::Path = syn::parse_str(&args[1]).unwrap();
    let lib = args[2] == "lib";
    let mut guarded = false;
    for path in &args[3..] {
        let src = fs::read_to_string(path).unwrap();
        let mut file: syn::File = match syn::parse_file(&src) {
            Ok(f) => f,
            Err(e) => {
                eprintln!("symx: cannot parse {path}: {e}");
                std::process::exit(3);
            }
        };
        let stem = std::path::Path::new(path)
            .file_stem()
            .unwrap()
            .to_string_lossy()
            .to_string();
        let mut rw = Rw {
            root: root.clone(),
            file: stem.clone(),
            instrument: lib,
            cur_impl: vec![],
            fstr_guarded: false,
        };
        rw.visit_file_mut(&mut file);
        guarded |= rw.fstr_guarded;
        if lib && stem == "lib" {
            file.items.insert(0, parse_quote!(pub mod symnum;));
        }
        fs::write(path, quote!(#file).to_string()).unwrap();
    }
    if lib && args[3..].iter().any(|p| p.ends_with("/types.rs")) && !guarded {
        eprintln!("symx: types::fstr not found / not guarded");
        std::process::exit(4);
    }
}
