#!/usr/bin/env python3
"""regen_bounds.py: rewrite the per-property bullets of DESIGN.md section 0.6 from the BOUNDS strings of the modules"""
import sys, re, importlib, os
root = os.path.dirname(os.path.dirname(os.path.abspath(__file__)))
sys.path.insert(0, root)
p = os.path.join(root, "DESIGN.md")
s = open(p).read()
for pid in ["C04", "C08", "C09", "C10", "C11", "C12", "C13", "C14", "C15", "C16", "C17", "C18", "C19"]:
    mod = importlib.import_module("props." + pid.lower())
    b = mod.BOUNDS if isinstance(mod.BOUNDS, str) else " ".join(mod.BOUNDS)
    m = re.search(r"^\* \*\*%s\*\* \((\w+)\): .*$" % pid, s, re.M)
    assert m, pid
    s = s[:m.start()] + f"* **{pid}** ({m.group(1)}): {b}" + s[m.end():]
open(p, "w").write(s)
