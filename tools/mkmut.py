#!/usr/bin/env python3
"""mkmut.py <out.diff> <file> <old> <new> [<file> <old> <new> ...]: make a patch by exact text replacement in /repo, then restore the tree"""
import subprocess, sys
out = sys.argv[1]
args = sys.argv[2:]
for i in range(0, len(args), 3):
    f, old, new = args[i:i + 3]
    p = "/repo/" + f
    s = open(p).read()
    assert s.count(old) == 1, (f, old, s.count(old))
    open(p, "w").write(s.replace(old, new))
d = subprocess.run(["git", "-C", "/repo", "diff"], capture_output=True, text=True).stdout
open(out, "w").write(d)
subprocess.run(["git", "-C", "/repo", "checkout", "--", "."])
print(d)
