#!/bin/bash
# usage: mutest.sh <patch.diff> <PROP>... : apply a patch to /repo, run the quick checks, undo the patch
set -u
P=$1; shift
cd /repo && git apply "$P" || { echo "patch does not apply"; exit 3; }
trap 'cd /repo && git checkout -- . ' EXIT
for prop in "$@"; do
  /verif/check $prop --tier ${TIER:-quick} 2>&1 | grep -E "VIOLATION|KNOWN-FINDING|INCONCLUSIVE|NOTE|^\[C|^  template|Traceback|Error" | head -${LINES_MAX:-12}
  echo "exit=${PIPESTATUS[0]}"
done
