// nativerun: the same line protocol as sxrun, against the UNMODIFIED svgdx crate (path dependency on /repo).
// Used to replay solver models and witnesses on the real build.  No variables: documents arrive concrete.
use std::io::{BufRead, Read, Write};
fn main() {
    let stdin = std::io::stdin();
    let mut inp = stdin.lock();
    let out = std::io::stdout();
    std::panic::set_hook(Box::new(|_| {}));
    loop {
        let mut line = String::new();
        if inp.read_line(&mut line).unwrap() == 0 {
            break;
        }
        let parts: Vec<&str> = line.split_whitespace().collect();
        if parts.len() < 4 || parts[0] != "RUN" {
            continue;
        }
        let n: usize = parts[1].parse().unwrap();
        let ndocs: usize = parts[2].parse().unwrap();
        let flags = parts.get(4).copied().unwrap_or("-");
        for _ in 0..n {
            let mut l = String::new();
            inp.read_line(&mut l).unwrap();
        }
        let mut docs = vec![];
        for _ in 0..ndocs {
            let mut l = String::new();
            inp.read_line(&mut l).unwrap();
            let len: usize = l.split_whitespace().nth(1).unwrap().parse().unwrap();
            let mut buf = vec![0u8; len];
            inp.read_exact(&mut buf).unwrap();
            docs.push(String::from_utf8(buf).unwrap());
        }
        let mut o = out.lock();
        writeln!(o, "BEGIN").unwrap();
        for (i, doc) in docs.into_iter().enumerate() {
            let cfg = svgdx::TransformConfig {
                add_auto_styles: flags.contains("auto"),
                add_metadata: flags.contains("meta"),
                ..Default::default()
            };
            let res = std::panic::catch_unwind(|| svgdx::transform_str(doc, &cfg));
            match res {
                Ok(Ok(s)) => {
                    writeln!(o, "DOCRESULT {i} ok").unwrap();
                    writeln!(o, "OUTPUT {}", s.len()).unwrap();
                    o.write_all(s.as_bytes()).unwrap();
                    writeln!(o).unwrap();
                }
                Ok(Err(e)) => {
                    let m = e.to_string().replace('\n', " | ");
                    writeln!(o, "DOCRESULT {i} err {m}").unwrap();
                }
                Err(p) => {
                    let msg = p
                        .downcast_ref::<String>()
                        .cloned()
                        .or_else(|| p.downcast_ref::<&str>().map(|s| s.to_string()))
                        .unwrap_or_default()
                        .replace('\n', " | ");
                    writeln!(o, "DOCRESULT {i} panic {msg}").unwrap();
                }
            }
        }
        writeln!(o, "END").unwrap();
        o.flush().unwrap();
    }
}
