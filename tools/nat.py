#!/usr/bin/env python3
"""run documents given on the command line (or stdin lines) through the unmodified build"""
import sys, os
sys.path.insert(0, os.path.dirname(os.path.dirname(os.path.abspath(__file__))))
from vlib import engine as E, build as B
m = B.ensure_built(None, verbose=False)
r = E.Runner(m["native"], native=True)
docs = sys.argv[1:] or [l.rstrip("\n") for l in sys.stdin if l.strip()]
for d in docs:
    res = r.run([d], (), flags=os.environ.get("FLAGS", "-"))
    x = res.docs[0]
    print(x["status"], x["msg"], "\n" + (x["output"] or ""))
r.close()
