#!/bin/bash
# seedcheck.sh <patch.diff> <PROP>...: apply a seeded change to /repo, run the quick checks, undo it straight afterwards
set -u
PATCH=$1; shift
cd /repo && git apply "$PATCH" || { echo "patch does not apply to /repo"; exit 3; }
trap 'git -C /repo checkout -- .' EXIT
for prop in "$@"; do
  /verif/check $prop --tier ${TIER:-quick} 2>&1 | grep -E "^VIOLATION|^KNOWN-FINDING|^INCONCLUSIVE|^NOTE|^\[C|^  template|^  harness" | cut -c1-330 | head -${LINES_MAX:-8}
done
