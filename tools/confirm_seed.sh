#!/bin/bash
# confirm_seed.sh <PROP> <n>: in the sub-agent's scratch worktree /tmp/mut/<PROP>, confirm that patch <n>
#  (1) applies, compiles and passes the whole existing suite, (2) makes its demonstration fail, (3) the demonstration passes without it
set -u
P=$1; N=$2; W=${MUTROOT:-/tmp/mut}/$P; O=$W/out/$N
cd $W && git checkout -q -- . && rm -f tests/demo_seed.rs
export CARGO_TARGET_DIR=$W/target CARGO_NET_OFFLINE=true
demo=$(ls $O/*.rs | head -1)
cp $demo tests/demo_seed.rs
clean=$(cargo test --offline --test demo_seed 2>&1 | grep -E "^test result" | tail -1)
rm -f tests/demo_seed.rs
git apply $O/patch.diff || { echo "PATCH DOES NOT APPLY"; exit 3; }
suite=$(cargo test --offline 2>&1 | grep -E "^test result" | sed 's/; 0 ignored.*//' | tr '\n' ' ')
cp $demo tests/demo_seed.rs
withp=$(cargo test --offline --test demo_seed 2>&1 | grep -E "^test result" | tail -1)
git checkout -q -- . ; rm -f tests/demo_seed.rs
echo "[$P/$N] demo on clean tree : $clean"
echo "[$P/$N] suite with patch   : $suite"
echo "[$P/$N] demo with patch    : $withp"
