#!/usr/bin/env python3
"""writes /verif/MANIFEST.json from the table below (claimed checks = modules that exist)"""
import json, os
V = os.path.dirname(os.path.dirname(os.path.abspath(__file__)))

SX_NOTE = ("Trusted base: the f32->Sx rewrite (tools/symx) and shadow runtime (sx/symnum.rs), re-validated on every tree by the repository's own tests on the rewritten crate and by "
           "byte-comparison of witness outputs with the unmodified build; exact real/integer SMT arithmetic stands for f32 only on terms proved exact on the stated dyadic grids; "
           "document structure is enumerated from the stated grammars, numbers are decided by z3 4.8.12; every sat model is replayed on the unmodified build before a VIOLATION is printed. ")

CHECKS = {
    "C01": dict(level="model_checking", engine="kani", technique="bounded model checking of the compiled code (Kani 0.68 / CBMC 6.11, bit-precise f32), counterexamples replayed natively",
                text="Bit-precise bounded model checking (Kani/CBMC) of the built-in function layer of the expression language: for every f32 bit pattern (NaN, infinities, subnormals) as "
                     "argument and every argument count 0..3, each numeric/list built-in of functions::eval_function returns Ok or Err - no panic, no failed overflow/bounds check; unwinding assertions on.",
                note="Numeric slice of C01 only. NOT covered (no solver-based engine here reaches it, DESIGN.md §2 P5/P6): byte-level inputs (malformed XML, non-UTF-8), expression and path *syntax*, "
                     "nesting depth, process liveness, CLI/server front-ends. alloc::fmt::format is stubbed (error message text is not the subject); random / randint are verified with a concrete generator state; tan / asin / acos / atan / r2p with the libm-backed f32 methods stubbed by an arbitrary result; the list built-ins that clone / compare values (head tail swap select if in eq ne) and the five string built-ins are excluded; argument counts above three are outside the bound.",
                ref="§4, §5 C01"),
    "C04": dict(level="model_checking", technique="symbolic-number execution of the real transform (SX) + z3: output number = input number for every value",
                text="Plain SVG 1.1 content with symbolic numbers in every numeric slot is run through the real pipeline; z3 decides out_term = in_var for every value in the domain, structure compared ground.",
                note=SX_NOTE + "Lexical number grammar (exponents, sign-separated numbers, run-together flags, xlink:href) is outside: tokens are plain decimals.", ref="§5 C04"),
    "C08": dict(level="model_checking", technique="SX symbolic-number execution + z3 (LIA/LRA with to_int for outward rounding): viewBox/width/height = reference extent recomputed from the output",
                text="Root viewBox/width/height are compared, for all values of the symbolic geometry, with the extent recomputed from the output's own geometry terms by the rule in the property.",
                note=SX_NOTE, ref="§5 C08"),
    "C09": dict(level="model_checking", technique="SX symbolic-number execution with solver-driven path exploration + z3: placed box = reference layout for every value",
                text="Relative placement forms (4 directions, 9 locations, 4 edges with abs/negative/percent offsets, xy-loc, cxy, dx/dy, 11 scalars, relative sizes, chains) with symbolic geometry: the "
                     "positioned element's output box equals the reference layout written from the property, for every value on every explored path.",
                note=SX_NOTE, ref="§5 C09"),
    "C10": dict(level="model_checking", technique="SX symbolic-number execution over all n! sibling orders + z3: per-id geometry terms equal the reference layout / the dependency-ordered document",
                text="Reference DAGs over <=4 id'd elements in every sibling order and both geometry spellings: geometry per id is order-independent and matches the reference layout for all values; "
                     "unsatisfiable references must fail.",
                note=SX_NOTE, ref="§5 C10"),
    "C11": dict(level="model_checking", technique="SX symbolic-number execution + z3: every constraint pair / shorthand spelling yields the reference box for every value",
                text="4 shapes x 36 per-axis constraint pairs x all shorthand/longhand spellings with symbolic boxes: native output attributes equal the reference box and no foreign geometry attribute remains.",
                note=SX_NOTE, ref="§5 C11"),
    "C12": dict(level="model_checking", technique="SX symbolic-number execution + z3 (linear exact; nonlinear real arithmetic for circle/ellipse enclosure)",
                text="surround/inside containers over lists of symbolic shapes with 1-4 margin values: rect equals the grown union exactly, circle/ellipse enclose its corners, inside lies within the shrunk intersection.",
                note=SX_NOTE + "Percent margin base (max resp. min of width/height) taken from the code's doc comment and recorded as an assumption.", ref="§5 C12"),
    "C13": dict(level="model_checking", technique="SX symbolic-number execution; paths discovered from seeded arrangements, each decided universally by z3 over nonlinear real arithmetic",
                text="Connector endpoints between two symbolic boxes: named locations exact, otherwise a minimal-distance candidate pair; h/v lines through the overlap middle; corner polylines rectilinear and perpendicular.",
                note=SX_NOTE + "Path coverage of the nonlinear templates is the set of discovered paths (exhaustiveness attempted and reported).", ref="§5 C13"),
    "C14": dict(level="model_checking", technique="SX execution with uninterpreted float operations (EUF) + z3: implementation computes the same operation tree as an independent reference evaluator; ground single-precision, arity and single-evaluation cases are decided on the unmodified build's output",
                text="Expression trees with symbolic operands: the value produced equals the reference precedence-climbing evaluation as a term over uninterpreted IEEE operations, hence bit-identical for every input.",
                note=SX_NOTE + "Single-evaluation of random() is a ground side-check, not the basis of the claim. Expression *syntax* space is enumerated, not symbolic.", ref="§5 C14"),
    "C15": dict(level="model_checking", technique="SX symbolic-number execution + z3: each definition carries a distinct symbolic number; resolution = validity of out_term = expected_var",
                text="Scope nestings with probes and optional forward references: every variable read resolves to the innermost lexical definition, decided as an SMT validity over independent symbolic values.",
                note=SX_NOTE, ref="§5 C15"),
    "C16": dict(level="translation_validation", technique="SX twin execution (loop document vs mechanically unrolled twin in one engine session) + z3 equality of all geometry terms",
                text="Loops/for/if with symbolic parameters vs their mechanical unrolling: element sequences identical and every geometry term equal for all values on the joint path.",
                note=SX_NOTE, ref="§5 C16"),
    "C17": dict(level="model_checking", technique="SX symbolic trip counts explored by solver-driven branch negation; two-sided Ok/Err verdict per path",
                text="Loop-limit exactness with the trip count governed by a symbolic bound (every trip count is a solver-found path); depth limit vs document length with symbolic sibling count.",
                note=SX_NOTE + "var-limit and nesting-depth boundaries are ground queries (no symbolic quantity exists).", ref="§5 C17"),
    "C18": dict(level="translation_validation", technique="SX twin execution (reuse document vs hand-inlined twin) + z3 equality of geometry terms; instance independence on the term DAG",
                text="Reuse of shapes/groups/symbols with symbolic bindings vs the target written out by hand: geometry terms equal for all values, instances independent.",
                note=SX_NOTE, ref="§5 C18"),
    "C19": dict(level="model_checking", technique="SX symbolic-number execution + z3: text anchor = reference placement table for every value",
                text="Generated text x/y, tspans and alignment classes for shapes x text-loc x inside/outside with symbolic offsets equal the placement table written from the property.",
                note=SX_NOTE + "Text fidelity over arbitrary strings (escaping) is character-level and NOT covered.", ref="§5 C19"),
}

NA = {
    "C02": "well-formedness/escaping is character-level through quick-xml and String concatenation; CBMC does not get through that code (DESIGN.md §2 P5) and the SX engine makes numbers symbolic, not characters",
    "C03": "infoset identity of passthrough is character-level (entity re-escaping, PIs, namespaced attributes); numeric content is copied byte-identically, nothing for a solver to decide",
    "C05": "byte-for-byte fixed point hinges on writer escaping/whitespace idempotence (character-level, as C02)",
    "C06": "quantifies over hash seeds and processes; HashSet<String> iteration is beyond CBMC here (P7) and native symbolic-number execution sees one seed per run",
    "C07": "files, exit codes, HTTP server, concurrency: no bounded symbolic engine available here models I/O or threads (Kani: no concurrency, no FFI)",
    "C20": "biconditional over class-name and CSS strings in HashSet/format!; no numeric carrier for SX, strings beyond Kani (P5, P7)",
}


def main():
    checks = []
    na = [dict(property_id=k, reason=v) for k, v in NA.items()]
    for pid, c in CHECKS.items():
        built = os.path.exists(os.path.join(V, "props", pid.lower() + ".py")) or (pid == "C01" and os.path.exists(os.path.join(V, "vlib", "kani_engine.py")))
        if not built:
            na.append(dict(property_id=pid, reason="check under construction in this session (planned: " + c["technique"] + ")"))
            continue
        checks.append(dict(
            property_id=pid,
            quick_cmd=f"./check {pid} --tier quick",
            thorough_cmd=f"./check {pid} --tier thorough",
            evidence_file=f"/verif/evidence/{pid}.json",
            replay_cmd_template=f"./check {pid} --replay {{path}}",
            engine=c.get("engine", "sx"),
            level_claimed=dict(category=c["level"], text=c["text"], design_ref=c["ref"]),
            level_note=c["note"],
            technique=c["technique"],
        ))
    na.sort(key=lambda x: x["property_id"])
    m = dict(
        version=1,
        setup_cmd="./setup.sh",
        hooks=dict(guard="none", enable="no source hooks are needed: the SX engine rewrites a scratch copy of /repo, Kani harness modules are appended to a scratch copy",
                   baseline_off_cmd="cd /repo && cargo test --workspace --no-fail-fast --offline", source_commits=[], add_only=True),
        engines=[dict(name="sx", path="/verif/vlib", serves_properties=[p for p in CHECKS if p != "C01"],
                      kind_free_text="symbolic-number (concolic) execution of the real transform pipeline on a mechanically rewritten copy of the crate (f32 -> shadow type), path conditions and output terms decided by z3"),
                 dict(name="kani", path="/verif/kani", serves_properties=["C01", "C08", "C09", "C11", "C12"],
                      kind_free_text="Kani/CBMC bounded model checking of string-free numeric kernels and the built-in function layer")],
        checks=checks,
        not_applicable=na,
        notes="See DESIGN.md. Exit codes: 0 held / 1 VIOLATION (replayed on the unmodified build) / 2 inconclusive.",
    )
    json.dump(m, open(os.path.join(V, "MANIFEST.json"), "w"), indent=1)
    print("claimed:", [c["property_id"] for c in checks], "n/a:", [x["property_id"] for x in na])


if __name__ == "__main__":
    main()
