"""C10 Forward references: geometry is independent of document order (DESIGN.md §5)."""
import itertools, random, re
from fractions import Fraction
from vlib.engine import *  # noqa
from vlib import geom as G
from vlib.harness import sample_quota

PROP = "C10"
LEVEL = "model_checking"
ANCHOR_PREFIXES = ["transform::process_tags", "transform::", "context::", "element::SvgElement::bbox", "element::SvgElement::eval_rel", "element::SvgElement::handle_containment", "element::split_relspec",
                   "element::SvgElement::resolve_position", "position::", "connector::"]
BOUNDS = ("reference DAGs over 2-4 id'd sibling elements built from {absolute rect/circle, |h |V placement, @loc placement, relative size, scalar reference, {{#id~scalar}} expression references, group with relatively positioned content, dw/dh-adjusted target, surround of 1-2, inside of 2, use, "
          "line and polyline connectors, elements with absolute compound geometry held back by a non-geometry attribute (data attribute, text, rx), relatively placed path, polyline with referenced points, "
          "group clipped by a clip path that follows the parent, clip path as a node of its own with a group clipped by it, and a seeded sample (quick 300, thorough 4000 DAGs x 3-4 orders) over the systematic unary kinds "
          "shape {rect, circle, ellipse, box, point} x position form {|h |H |v |V, @loc, cxy@loc, xy-loc, edge, ~scalar on x/y, on x2/y2, on cx/cy, {{expression}}} x size form {wh, longhand, relative, dw/dh, r, rxy, rx+ry} x held-back-or-not, "
          "surround / inside containers of each shape, path data and phantom points referring to the parent}; every one of the n! sibling orders (sampled for the systematic kinds); size spelled wh or width/height, position spelled xy or x/y; positions k/2 in [-256,256], sizes integers in [0,64], "
          "gaps k/2 in [-16,16]; connector templates: the paths reached from the seeded valuations (no exhaustive negation); '^' excluded as the property says; a two-parent shape (element, something placed against it, connector / surround of both) with phantom points as connector ends; node kinds whose size is copied from the parent with deltas / scaling at an absolute position, and whose transform alone needs the parent")
ASSUMPTIONS = ["the dependency-ordered document (every element after the elements it refers to) defines the expected geometry; both documents run in one engine session over the same variables",
               "unsatisfiable references (unknown id, cycle, target without bounding box) are ground queries: no symbolic quantity involved"]

POS = (-256, 256, 1)
SZ = (0, 64, 0)
GP = (-16, 16, 1)


# ---- systematic unary node kinds: "N:<shape>:<position form>:<size form>[:held]" (one parent) and containers "S:<shape>:<n>" / "I:<shape>:<n>"
NSHAPES = ["rect", "circle", "ellipse", "box", "point"]
NPOS = ["dirh", "dirH", "dirv", "dirV", "loc", "cloc", "xyloc", "edge", "scalar", "scalar2", "ccs", "expr"]
NSIZE = {"rect": ["wh", "long", "rel", "dw", "reldw", "reldwp"], "box": ["wh", "long"], "circle": ["r", "wh1"], "ellipse": ["rxy", "rxry", "wh"], "point": ["none"]}


def nkinds():
    out = []
    for shp in NSHAPES:
        for pf in NPOS:
            if shp == "point" and pf in ("cloc", "xyloc", "scalar2", "ccs"):
                continue
            for sf in NSIZE[shp]:
                out.append(f"N:{shp}:{pf}:{sf}")
    for shp in ("rect", "circle", "ellipse"):
        out += [f"S:{shp}:1", f"I:{shp}:1"]
    out += ["PD", "PT2"]
    return out


def nnode(kind, id_, p, a):
    _, shp, pf, sf = kind.split(":")[:4]
    pos = {"dirh": f'xy="{p}|h {a[0]}"', "dirH": f'xy="{p}|H {a[0]}"', "dirv": f'xy="{p}|v {a[0]}"', "dirV": f'xy="{p}|V {a[0]}"', "loc": f'xy="{p}@br {a[0]} {a[1]}"',
           "cloc": f'cxy="{p}@c {a[0]}"', "xyloc": f'xy="{p}@r {a[0]}" xy-loc="l"', "edge": f'xy="{p}@b:25% {a[0]}"', "scalar": f'x="{p}~x2" y="{p}~cy {a[0]}"',
           "scalar2": f'x2="{p}~x1" y2="{p}@b {a[0]} {a[1]}"', "ccs": f'cx="{p}~cx {a[0]}" cy="{p}@t"', "expr": f'x="{{{{{p}~x2 + {a[0]}}}}}" y="{{{{{p}~y}}}}"'}[pf]
    size = {"reldw": f'wh="{p}" dwh="{a[4]} 1"', "reldwp": f'width="{p}" height="{a[3]}" dw="50%"', "wh": f'wh="{a[2]} {a[3]}"', "long": f'width="{a[2]}" height="{a[3]}"', "rel": f'wh="{p} 50%"', "dw": f'width="{a[2]}" height="{a[3]}" dw="{a[4]}" dh="1"',
            "r": f'r="{a[2]}"', "wh1": f'wh="{a[2]}"', "rxy": f'rxy="{a[2]} {a[3]}"', "rxry": f'rx="{a[2]}" ry="{a[3]}"', "none": ""}[sf]
    held = ' data-h="{{%s~h}}"' % p if kind.endswith(":held") else ""
    return f'<{shp} id="{id_}" {pos} {size}{held}/>', [(2, *GP), (-3, *GP), (6, *SZ), (8, *SZ), (3, 0, 16, 0)]


def node(kind, id_, parents, k0, sp):
    """returns (markup, varspecs).  sp: spelling dict(size='wh'|'long', pos='xy'|'long')"""
    a = [f"[[{k0 + j}]]" for j in range(6)]
    p = ["#" + x for x in parents]
    if kind.startswith("N:"):
        return nnode(kind, id_, p[0], a)
    if kind.startswith(("S:", "I:")):
        what, shp, n = kind.split(":")
        attr = "surround" if what == "S" else "inside"
        return f'<{shp} id="{id_}" {attr}="{" ".join(p)}" margin="{a[0]}"/>', [(2, 0, 8, 1)]
    if kind == "RU":     # a reuse placed relative to the parent, carrying an attribute local s
        return f'<reuse id="{id_}" href="#rut" xy="{p[0]}|h {a[0]}" s="1"/>', [(2, *GP)]
    if kind == "VS":     # an element reading the document-level $s (its parent in the DAG shape is not referred to)
        return f'<rect id="{id_}" xy="{a[0]} {a[1]}" wh="$s 3"/>', [(9, *POS), (6, *POS)]
    if kind == "PD":     # path whose data refers to the parent
        return f'<path id="{id_}" d="M {p[0]}@tl L {p[0]}@r l {a[0]} {a[1]}"/>', [(2, *GP), (-3, *GP)]
    if kind == "PT2":    # phantom point on the parent, nothing rendered
        return f'<point id="{id_}" xy="{p[0]}@br {a[0]}"/>', [(2, *GP)]

    def size(w, h):
        return f'wh="{w} {h}"' if sp["size"] == "wh" else f'width="{w}" height="{h}"'

    def pos(x, y):
        return f'xy="{x} {y}"' if sp["pos"] == "xy" else f'x="{x}" y="{y}"'
    n = int(id_[1:]) if id_[1:].isdigit() else 0
    if kind == "R":
        return f'<rect id="{id_}" {pos(a[0], a[1])} {size(a[2], a[3])}/>', [(3 + 7 * n, *POS), (4 + 3 * n, *POS), (20, *SZ), (10, *SZ)]     # (initial boxes overlap, so that inside= has something to fill)
    if kind == "C":
        return f'<circle id="{id_}" cxy="{a[0]} {a[1]}" r="{a[2]}"/>', [(13 + 5 * n, *POS), (9 + 4 * n, *POS), (7, *SZ)]
    if kind == "H":
        return f'<rect id="{id_}" xy="{p[0]}|h {a[0]}" {size(a[1], a[2])}/>', [(2, *GP), (6, *SZ), (8, *SZ)]
    if kind == "V":
        return f'<rect id="{id_}" xy="{p[0]}|V {a[0]}" {size(a[1], a[2])}/>', [(3, *GP), (5, *SZ), (9, *SZ)]
    if kind == "L":
        return f'<rect id="{id_}" xy="{p[0]}@br {a[0]} {a[1]}" {size(a[2], a[3])}/>', [(2, *GP), (-3, *GP), (6, *SZ), (8, *SZ)]
    if kind == "LC":
        return f'<circle id="{id_}" cxy="{p[0]}@t" r="{a[0]}"/>', [(4, *SZ)]
    if kind == "Z":
        return f'<rect id="{id_}" {pos(a[0], a[1])} wh="{p[0]}"/>', [(9, *POS), (6, *POS)]
    if kind == "Zd":     # own position absolute, size copied from the parent and adjusted by absolute deltas
        return f'<rect id="{id_}" {pos(a[0], a[1])} wh="{p[0]}" dwh="{a[2]} 1"/>', [(9, *POS), (6, *POS), (3, 0, 16, 0)]
    if kind == "Zp":     # one dimension copied from the parent and adjusted by a relative delta
        return f'<rect id="{id_}" {pos(a[0], a[1])} width="{p[0]}" height="{a[2]}" dw="50%"/>', [(9, *POS), (6, *POS), (8, *SZ)]
    if kind == "Zr":     # parent's size, scaled
        return f'<rect id="{id_}" {pos(a[0], a[1])} wh="{p[0]} 50%" dh="{a[2]}"/>', [(9, *POS), (6, *POS), (3, 0, 16, 0)]
    if kind == "X":
        return f'<rect id="{id_}" x="{p[0]}~x2" y="{p[0]}~cy" {size(a[0], a[1])}/>', [(6, *SZ), (8, *SZ)]
    if kind == "S1":
        return f'<rect id="{id_}" surround="{p[0]}" margin="{a[0]}"/>', [(2, 0, 16, 1)]
    if kind == "S2":
        return f'<rect id="{id_}" surround="{p[0]} {p[1]}" margin="{a[0]}"/>', [(2, 0, 16, 1)]
    if kind == "I2":
        return f'<rect id="{id_}" inside="{p[0]} {p[1]}"/>', []
    if kind == "U":
        return f'<use id="{id_}" href="{p[0]}" x="{a[0]}" y="{a[1]}"/>', [(30, *POS), (-20, *POS)]
    if kind == "G":      # a group whose content is positioned relative to the parent: the group's extent depends on it
        return f'<g id="{id_}"><rect xy="{p[0]}|h {a[0]}" {size(a[1], a[2])}/></g>', [(2, *GP), (6, *SZ), (8, *SZ)]
    if kind == "Hd":     # forward-positioned, longhand size adjusted by dw/dh
        return f'<rect id="{id_}" xy="{p[0]}|v {a[0]}" width="{a[1]}" height="{a[2]}" dw="{a[3]}" dh="2"/>', [(2, *GP), (6, *SZ), (8, *SZ), (3, 0, 16, 0)]
    if kind == "E":      # expression-form references to the parent's size and position
        return (f'<rect id="{id_}" xy="{{{{{p[0]}~x2 + {a[0]}}}}} {{{{{p[0]}~cy}}}}" width="{{{{{p[0]}~w}}}}" height="{{{{{p[0]}~h + 1}}}}"/>', [(2, *GP)])
    if kind == "T":      # absolute compound geometry; the element is held back by a NON-geometry attribute that needs the parent
        return f'<rect id="{id_}" cxy="{a[0]} {a[1]}" {size(a[2], a[3])} dw="2" data-w="{{{{{p[0]}~w}}}}"/>', [(9 + 2 * n, *POS), (6, *POS), (6, *SZ), (8, *SZ)]
    if kind == "Tt":     # plain longhand geometry; only the transform needs the parent
        return f'<rect id="{id_}" x="{a[0]}" y="{a[1]}" width="{a[2]}" height="{a[3]}" transform="translate({{{{{p[0]}~w}}}} 0)"/>', [(9 + 2 * n, *POS), (6, *POS), (6, *SZ), (8, *SZ)]
    if kind == "Tc":     # same with a circle given by cxy + r and a text that needs the parent
        return f'<circle id="{id_}" cxy="{a[0]} {a[1]}" r="{a[2]}" text="{{{{{p[0]}~h}}}}"/>', [(9 + 2 * n, *POS), (6, *POS), (6, *SZ)]
    if kind == "Tx":     # xy + longhand size + dx, held back by an rx expression
        return f'<rect id="{id_}" xy="{a[0]} {a[1]}" width="{a[2]}" height="{a[3]}" rx="{{{{{p[0]}~w / 16}}}}"/>', [(9 + 2 * n, *POS), (6, *POS), (6, *SZ), (8, *SZ)]
    if kind == "PA":     # a path placed relative to the parent (rendered as a translation)
        return f'<path id="{id_}" xy="{p[0]}|h {a[0]}" d="M 0 0 h {a[1]} v {a[2]} z"/>', [(2, *GP), (6, *SZ), (8, *SZ)]
    if kind == "PL":     # polyline with points taken from the parent
        return f'<polyline id="{id_}" points="{p[0]}@tl {p[0]}@br {a[0]} {a[1]}"/>', [(9, *POS), (6, *POS)]
    if kind == "CG":     # a group clipped by a clip path that follows the parent's geometry
        return (f'<g id="{id_}" clip-path="url(#cp{id_})"><rect xy="{p[0]}|v {a[0]}" {size(a[1], a[2])}/></g>'
                f'<clipPath id="cp{id_}"><rect xy="{p[0]}@tl" wh="{a[3]} 300"/></clipPath>', [(2, *GP), (6, *SZ), (8, *SZ), (40, *SZ)])      # (initial clip width wide enough to leave the group a box)
    if kind == "CP":     # a clip path of its own that follows the parent's geometry
        return f'<clipPath id="{id_}"><rect xy="{p[0]}@tl" wh="{a[0]} 300"/></clipPath>', [(4, *SZ)]
    if kind == "GC":     # a group with absolute content, clipped by the parent (a clip path): its extent depends on the clip path being known
        return f'<g id="{id_}" clip-path="url({p[0]})"><rect xy="{a[0]} {a[1]}" {size(a[2], a[3])}/></g>', [(-3, *POS), (-5, *POS), (40, *SZ), (9, *SZ)]
    if kind == "EZ":     # expression-form references to size scalars only (own position absolute)
        return f'<rect id="{id_}" {pos(a[0], a[1])} width="{{{{{p[0]}~w}}}}" height="{{{{{p[0]}~h * 2}}}}"/>', [(9, *POS), (6, *POS)]
    if kind == "ER":     # expression-form reference to the radius-like scalars
        return f'<circle id="{id_}" cxy="{{{{{p[0]}~cx}}}} {{{{{p[0]}~y2}}}}" r="{{{{{p[0]}~rx}}}}"/>', []
    if kind == "K":
        return f'<line id="{id_}" start="{p[0]}" end="{p[1]}"/>', []
    if kind == "KL":
        return f'<line id="{id_}" start="{p[0]}@r" end="{p[1]}@tl"/>', []
    if kind == "KP":
        return f'<polyline id="{id_}" start="{p[0]}@b" end="{p[1]}@l"/>', []
    raise ValueError(kind)


N0 = ["R", "C"]
N1 = ["H", "V", "L", "LC", "Z", "Zd", "Zp", "Zr", "X", "S1", "U", "G", "Hd", "E", "EZ", "ER", "T", "Tt", "Tc", "Tx", "PA", "PL", "CG", "PT2"]
N2 = ["S2", "I2", "K", "KL", "KP"]
SHAPES = {   # node index -> parents (indices); listed in dependency order
    "pair": [[], [0]],
    "chain3": [[], [0], [1]],
    "fan3": [[], [0], [0]],
    "join3": [[], [], [0, 1]],
    "chain4": [[], [0], [1], [2]],
    "diamond4": [[], [0], [0], [1, 2]],
    "join-then4": [[], [], [0, 1], [2]],
    "mixed4": [[], [0], [0, 1], [2]],
    "tri3": [[], [0], [0, 1]],                  # a two-parent element (connector, surround) between an element and something placed against it
    "g-and-sibling": [[], [], [0], [1, 2]],     # surround of an independent element and a group whose content refers elsewhere
}
SPELL = [dict(size="wh", pos="xy"), dict(size="long", pos="xy"), dict(size="long", pos="long"), dict(size="wh", pos="long")]


def kind_choices(shape, rnd, count):
    res = []
    arity = [len(p) for p in SHAPES[shape]]
    pools = [{0: N0, 1: N1, 2: N2}[a] for a in arity]
    total = 1
    for pl in pools:
        total *= len(pl)
    if total <= count:
        return [list(c) for c in itertools.product(*pools)]
    seen = set()
    while len(res) < count:
        c = tuple(rnd.choice(pl) for pl in pools)
        if c not in seen:
            seen.add(c)
            res.append(list(c))
    return res


def templates(tier, seed):
    rnd = random.Random(99)
    tds = []
    for shape in SHAPES:
        n = len(SHAPES[shape])
        budget = {2: 16, 3: 40, 4: 30}[n]
        for kinds in kind_choices(shape, rnd, budget):
            for si, sp in enumerate(SPELL):
                if n == 4 and si not in (0, 2):
                    continue
                for perm in itertools.permutations(range(n)):
                    if list(perm) == list(range(n)):
                        continue
                    tds.append(dict(fam="order", shape=shape, kinds=kinds, sp=si, perm=list(perm)))
    # the arrangement named in the property text: container, forward-positioned target with longhand size, target's reference
    for si in range(4):
        for perm in itertools.permutations(range(3)):
            tds.append(dict(fam="order", shape="chain3", kinds=["R", "H", "S1"], sp=si, perm=list(perm)))
    for kinds, shape in ((["R", "G", "S2x"], "g-surround"), (["R", "Hd", "E"], "chain3"), (["R", "G", "S1"], "chain3"), (["C", "Hd", "ER"], "chain3"), (["R", "G", "E"], "chain3"), (["R", "Hd", "EZ"], "chain3"), (["C", "L", "EZ"], "chain3"),
                         (["R", "T", "H"], "chain3"), (["R", "Tc", "L"], "chain3"), (["R", "Tx", "H"], "chain3"), (["R", "PA", "H"], "chain3"), (["R", "PA", "S1"], "chain3"),
                         (["R", "PT2", "K"], "tri3"), (["C", "PT2", "KL"], "tri3"), (["R", "PT2", "KP"], "tri3"), (["R", "H", "K"], "tri3"), (["R", "PT2", "S2"], "tri3"),
                         (["R", "Tt", "H"], "chain3"), (["R", "Tt", "S1"], "chain3"), (["C", "Tt", "Z"], "chain3"),
                         (["R", "H", "Zd"], "chain3"), (["R", "H", "Zp"], "chain3"), (["R", "V", "Zr"], "chain3"), (["C", "L", "Zd", "H"], "chain4"), (["R", "Hd", "Zp", "S1"], "chain4"),
                         (["C", "LC", "H"], "chain3"), (["R", "RU", "VS"], "chain3"), (["R", "RU", "VS", "H"], "chain4"), (["R", "CP", "GC"], "chain3"), (["R", "CP", "GC", "S1"], "chain4"), (["R", "CP", "GC", "H"], "chain4"), (["R", "CG", "H"], "chain3"), (["R", "CG", "S1"], "chain3"), (["R", "T", "S1"], "chain3"), (["R", "PL", "S1"], "chain3")):
        if shape == "g-surround":
            continue
        for si in (range(4) if len(kinds) == 3 else (0, 2)):
            for perm in itertools.permutations(range(len(kinds))):
                tds.append(dict(fam="order", shape=shape, kinds=kinds, sp=si, perm=list(perm), fixed=True))
    for si in (0, 2):
        for perm in itertools.permutations(range(4)):
            tds.append(dict(fam="order", shape="g-and-sibling", kinds=["R", "R", "G", "S2"], sp=si, perm=list(perm)))
    # systematic node kinds: chains / fans whose inner nodes are drawn from the product shape x position form x size form
    rs = random.Random(4242 + seed)
    NK = nkinds()
    NU = [k for k in NK]
    sysn = []
    for i in range(300 if tier == "quick" else 4000):
        shape = rs.choice(["chain3", "chain3", "chain4", "fan3", "mixed4"])
        par = SHAPES[shape]
        kinds = []
        for j, pj in enumerate(par):
            if len(pj) == 0:
                kinds.append(rs.choice(N0))
            elif len(pj) == 1:
                k = rs.choice(NU)
                if k.startswith("N:") and rs.random() < 0.25:
                    k += ":held"
                kinds.append(k)
            else:
                kinds.append(rs.choice(["S2", "I2", f"S:{rs.choice(['rect', 'circle', 'ellipse'])}:2", f"I:{rs.choice(['rect', 'ellipse'])}:2"]))
        n = len(par)
        perms = [pp for pp in itertools.permutations(range(n)) if list(pp) != list(range(n))]
        for perm in rs.sample(perms, min(len(perms), 3 if n == 3 else 4)):
            sysn.append(dict(fam="order", shape=shape, kinds=kinds, sp=0, perm=list(perm), sysn=True, dflt=(i % 4 == 1)))
    tds += sysn
    for bad in ("unknown-id", "cycle2", "cycle3", "self", "no-bbox", "unknown-surround", "unknown-connector", "cycle-size"):
        tds.append(dict(fam="unsat", case=bad))
    if tier == "quick":
        keep = [t for t in tds if t["fam"] == "unsat" or t.get("sysn") or t.get("fixed") or t.get("kinds") in (["R", "H", "S1"], ["R", "T", "H"], ["R", "Tc", "L"], ["R", "Tx", "H"], ["R", "PA", "H"], ["R", "PA", "S1"], ["C", "LC", "H"], ["R", "RU", "VS"], ["R", "RU", "VS", "H"], ["R", "CP", "GC"], ["R", "CP", "GC", "S1"], ["R", "CP", "GC", "H"], ["R", "CG", "H"], ["R", "CG", "S1"], ["R", "T", "S1"], ["R", "PL", "S1"], ["R", "Hd", "EZ"], ["C", "L", "EZ"], ["R", "Hd", "E"], ["R", "G", "S1"], ["C", "Hd", "ER"], ["R", "G", "E"], ["R", "R", "G", "S2"])]
        rest = [t for t in tds if t not in keep and not t.get("sysn")]
        tds = keep + sample_quota(rest, lambda t: (t["shape"],), {"pair": 20, "chain3": 50, "fan3": 40, "join3": 40, "tri3": 30, "chain4": 30, "diamond4": 30, "join-then4": 30, "mixed4": 30, "g-and-sibling": 0}, seed)
    return tds


def twins(tier, seed):
    return [dict(fam="order", shape="chain3", kinds=["R", "H", "L"], sp=0, perm=[2, 1, 0]), dict(fam="order", shape="join3", kinds=["R", "C", "S2"], sp=1, perm=[2, 0, 1])]


UNSAT = {
    "unknown-id": '<svg><rect id="a" xy="[[0]] 2" wh="3"/><rect id="b" xy="#nope|h" wh="2"/></svg>',
    "cycle2": '<svg><rect id="a" xy="#b|h [[0]]" wh="3"/><rect id="b" xy="#a|h" wh="2"/></svg>',
    "cycle3": '<svg><rect id="a" xy="#c|h [[0]]" wh="3"/><rect id="b" xy="#a|v" wh="2"/><rect id="c" xy="#b@tl" wh="2"/></svg>',
    "self": '<svg><rect id="a" xy="#a|h [[0]]" wh="3"/></svg>',
    "no-bbox": '<svg><rect id="a" xy="[[0]] 2"/><rect id="b" xy="#a|h" wh="2"/></svg>',
    "unknown-surround": '<svg><rect id="a" xy="[[0]] 2" wh="3"/><rect id="s" surround="#a #zz"/></svg>',
    "unknown-connector": '<svg><rect id="a" xy="[[0]] 2" wh="3"/><line start="#a" end="#zz"/></svg>',
    "cycle-size": '<svg><rect id="a" xy="[[0]] 2" wh="#b"/><rect id="b" xy="1" wh="#a"/></svg>',
}


def numeric_attr_terms(o, el):
    res = {}
    for a, v in el.attrib.items():
        if a in ("id", "class", "style", "href"):
            continue
        if a in ("points",):
            res[a] = o.nums(el, a)
        elif a in G.GEOM_ATTRS or a in ("x", "y"):
            try:
                res[a] = [o.tok(v)]
            except Exception:
                res[a] = None
        if a in res and res[a] is not None:
            continue
        if "8888" in v:
            # any other attribute that carries computed numbers (pass-through data attributes, rx, transform, d ...) is compared
            # number by number as terms; the text around the numbers is compared literally
            from vlib.twin import split_numeric
            skel, terms = split_numeric(o, v)
            res[a] = [("skel", skel)] + terms
        else:
            res[a] = None
    return res


def build(td, wrong=False):
    if td["fam"] == "unsat":
        doc = UNSAT[td["case"]]

        def check_unsat(r):
            return [Obl("unsatisfiable-reference-fails", PASS if r.status == "err" else FAIL, ground=True, note=(r.output or "")[:200])]
        return Template("unsat/" + td["case"], doc, [(3, *POS)], check_unsat, family="unsatisfiable", role="C10/unsat/" + td["case"], cap=2)
    shape, kinds, sp, perm = td["shape"], td["kinds"], SPELL[td["sp"]], td["perm"]
    parents = SHAPES[shape]
    ids = [f"e{i}" for i in range(len(parents))]
    vars_, marks = [], []
    for i, k in enumerate(kinds):
        m, vs = node(k, ids[i], [ids[j] for j in parents[i]], len(vars_), sp)
        marks.append(m)
        vars_ += vs
    # element defaults (appended attributes such as transform included) are applied once per element, however often it is retried
    dflt = ('<defaults><rect transform="translate(3 0)" opacity="0.5"/><circle transform="translate(0 2)"/><ellipse class="dflt" transform="translate(1 1)"/></defaults>'
            if td.get("dflt") else "")
    if "RU" in kinds:
        dflt += '<specs><rect id="rut" wh="5 2" data-s="$s"/></specs><var s="4"/>'
    doc_sorted = "<svg>" + dflt + "".join(marks) + "</svg>"
    doc_perm = "<svg>" + dflt + "".join(marks[i] for i in perm) + "</svg>"
    has_conn = any(k in ("K", "KL", "KP") for k in kinds)

    first = [True]

    def check(r):
        try:
            return check_(r)
        finally:
            first[0] = False

    def check_(r):
        d1, d2 = r.docs[0], r.docs[1]
        if d2["status"] != "ok":
            # the dependency-ordered document itself is not accepted: nothing to compare (not a C10 matter) - counted, and an
            # internal error when it happens for the hand-picked arrangements (a template that compares nothing decides nothing)
            if td.get("fixed") and first[0]:
                raise RuntimeError("dependency-ordered document rejected for the initial valuation: " + d2["msg"][:200] + " :: " + doc_sorted[:300])
            return [Obl("reference-document-ok", PASS, ground=True, note="dependency-ordered document rejected: " + d2["msg"][:100])]
        if d1["status"] != "ok":
            return [Obl("permuted-document-ok", FAIL, ground=True, note=d1["msg"][:200])]
        o1, o2 = Out(d1["output"]), Out(d2["output"])
        obls = []
        seq = [e.get("id") for e in o1.all if e.get("id") in ids]
        rendered = [i for i in ids if o2.by_id(i) is not None]       # (phantom elements - box, point - are rendered in neither document)
        obls.append(Obl("output-follows-document-order", PASS if seq == [ids[i] for i in perm if ids[i] in rendered] else FAIL, ground=True, note=str(seq)))
        for id_ in ids:
            e1, e2 = o1.by_id(id_), o2.by_id(id_)
            if e1 is None and e2 is None:
                continue
            if e1 is None or e2 is None:
                obls.append(Obl(f"{id_}-present", FAIL, ground=True))
                continue
            a1, a2 = numeric_attr_terms(o1, e1), numeric_attr_terms(o2, e2)
            if sorted(a1) != sorted(a2):
                obls.append(Obl(f"{id_}-same-attributes", FAIL, ground=True, note=f"{sorted(a1)} vs {sorted(a2)}"))
                continue
            for a in a1:
                if a1[a] is None or a2[a] is None:
                    same = e1.get(a) == e2.get(a)
                    obls.append(Obl(f"{id_}.{a}", PASS if same else FAIL, ground=True))
                    continue
                if len(a1[a]) != len(a2[a]):
                    obls.append(Obl(f"{id_}.{a}-length", FAIL, ground=True))
                    continue
                for j, (x, y) in enumerate(zip(a1[a], a2[a])):
                    if isinstance(x, tuple) or isinstance(y, tuple):
                        obls.append(Obl(f"{id_}.{a}-text", PASS if x == y else FAIL, ground=True, note=f"{x} vs {y}"))
                        continue
                    if wrong and id_ == ids[-1] and j == 0:
                        y = plus(y, "1.0")
                    obls.append(Obl(f"{id_}.{a}" + (f"[{j}]" if len(a1[a]) > 1 else ""), ne(x, y)))
        # the root extent must not depend on the order either
        for a in ("viewBox", "width", "height"):
            v1, v2 = o1.root.get(a), o2.root.get(a)
            if v1 is None or v2 is None:
                obls.append(Obl(f"root.{a}", PASS if v1 == v2 else FAIL, ground=True))
            else:
                n1 = [o1.tok(x) for x in re.findall(G.NUM_RE, v1)]
                n2 = [o2.tok(x) for x in re.findall(G.NUM_RE, v2)]
                for j, (x, y) in enumerate(zip(n1, n2)):
                    obls.append(Obl(f"root.{a}[{j}]", ne(x, y)))
        return obls
    # role signature for known-finding matching: a <use> taking part in a forward-reference DAG is a class of its own
    # ... and so is a clip path that cannot be resolved at its first attempt (it stays registered without a box)
    def firstpass(i):       # resolved on the first attempt: everything it follows comes earlier and was itself resolved at once
        return all(perm.index(j) < perm.index(i) and firstpass(j) for j in parents[i])
    clip_first = any(k in ("CG", "CP") and not firstpass(i) for i, k in enumerate(kinds))
    role = ("C10/forward-reference-through-use" if "U" in kinds else "C10/forward-reference-through-clip-path" if clip_first else "C10/order/" + "-".join(kinds))
    name = f"order/{shape}/{'-'.join(kinds)}/sp{td['sp']}/{''.join(map(str, perm))}" + ("/dflt" if td.get("dflt") else "")
    return Template(name, [doc_perm, doc_sorted], vars_, check, family=f"order-{shape}", role=role, cap=3 if has_conn else 6, explore=not has_conn)
