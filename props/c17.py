"""C17 Limits reject exactly when exceeded; depth means nesting, not length (DESIGN.md §5)."""
import random, itertools
from fractions import Fraction
from vlib.engine import *  # noqa
from vlib.harness import sample_quota

PROP = "C17"
LEVEL = "model_checking"
ANCHOR_PREFIXES = ["loop_el::", "context::TransformerContext::inc_depth", "context::TransformerContext::dec_depth", "context::", "transform::", "expression::eval_condition", "functions::"]
BOUNDS = ("loop-limit L in 0..3 with while / until loops whose trip count is governed by a symbolic integer bound in [-2,8] (every trip count 0..L+2 is a solver-found path), bodies of 1-2 elements, "
          "loops at top level and inside <g>; count loops and <for> loops with concrete trip counts 0..L+2 (ground); depth-limit d+2 (d = the template's nesting depth) with a while loop emitting "
          "N <= 6 sibling elements (N symbolic) of kinds {text with content, defs, nested svg, namespaced embedded svg, linearGradient, g, rect, reuse, use, a, marker, clipPath, comment, style, path, polyline}; documents with 1-8 forward-referencing (retried) elements at nesting depth D with depth-limit D and D+1; nesting depth D-1/D/D+1 and var-limit boundaries (ASCII exact; multi-byte characters: Ok or Err, never a crash) as ground queries; seeded random fragments (quick 150, thorough 2500, each at limit need-1 / need / need+1): element trees over {g, loop, for, if true/false, reuse of a shape / group template, use, specs, shapes, var, config, defaults} against a reference nesting-depth model, and nests of count / while / until / for loops with concrete pass counts against a per-loop pass model; limits nested in <if> / <loop> / <for>, changed by a <config> inside a running loop or later in the document; values copied from group / reuse attributes and <for> items; var-limit per value of a multi-attribute <var> (each within / one over the limit, swap at the limit)")
ASSUMPTIONS = ["a loop 'runs more than loop-limit iterations' when its body would be entered more than loop-limit times (test-suite: count=100 passes and count=101 fails with loop-limit=100)",
               "nesting depth counts element levels (test-suite: g>g>g>rect needs depth-limit 4); the symbolic length templates leave two levels of slack so that they do not depend on how an element's own text content is counted"]

NDOM = (-2, 8, 0)
KINDS = {
    "text": "<text>a</text>", "defs": "<defs><rect wh=\"1\"/></defs>", "svg": "<svg><rect wh=\"1\"/></svg>", "gradient": "<linearGradient><stop offset=\"0\"/></linearGradient>",
    "g": "<g><rect wh=\"1\"/></g>", "rect": "<rect wh=\"1\"/>", "reuse": "<reuse href=\"#t\"/>", "a": "<a><rect wh=\"1\"/></a>", "marker": "<marker><rect wh=\"1\"/></marker>",
    "clipPath": "<clipPath><rect wh=\"1\"/></clipPath>", "svgns": "<rect wh=\"1\"/><svg xmlns=\"http://www.w3.org/2000/svg\"><rect width=\"1\" height=\"1\"/></svg>",
    "use": "<use href=\"#t\"/>", "iffalse": "<if test=\"0\"><rect wh=\"1\"/></if>", "iftrue": "<if test=\"1\"><rect wh=\"1\"/></if>", "loop0": "<loop count=\"0\"><rect wh=\"1\"/></loop>",
    "loop2": "<loop count=\"2\"><rect wh=\"1\"/></loop>", "for1": "<for var=\"q\" data=\"1, 2\"><rect wh=\"$q\"/></for>", "var": "<var q=\"1\"/><rect wh=\"1\"/>", "defaults": "<defaults><rect rx=\"1\"/></defaults><rect wh=\"1\"/>",
    "gempty": "<g></g><g/>", "point": "<point xy=\"1\"/><box wh=\"2\"/>", "shapetext": "<rect wh=\"5\" text=\"a\"/>", "iffwd": "<if test=\"gt(#zz~w, 0)\"><rect wh=\"1\"/></if>", "comment": "<!-- c --><rect wh=\"1\"/>", "style": "<style>rect { fill: red; }</style>", "path": "<path d=\"M 0 0 L 1 1\"/>", "polyline": "<polyline points=\"0 0 1 1\"/>", "recttext": "<rect wh=\"1\">hi</rect>", "title": "<title>t</title>",
}
DEPTH = {"text": 3, "defs": 4, "svg": 4, "gradient": 4, "g": 4, "rect": 3, "reuse": 4, "a": 4, "marker": 4, "clipPath": 4, "recttext": 3, "title": 3, "svgns": 4, "use": 3, "iffalse": 4, "iftrue": 4, "loop0": 4, "loop2": 4, "for1": 4, "var": 3, "defaults": 4, "gempty": 3, "point": 3, "shapetext": 3, "iffwd": 4, "comment": 3, "style": 3, "path": 3, "polyline": 3}


def gen_depth_doc(gseed):
    """a seeded random fragment; returns (markup, nesting depth of its deepest processed element) under the reference model:
    a top-level element is at depth 1, children of <g> / <loop> / <if> bodies one deeper, an instance made by <reuse> one
    deeper than the <reuse> (and its own children one deeper again); the body of a false <if> is never entered"""
    rnd = random.Random(6100 + gseed)
    deepest = [0]

    def node(d, budget):
        deepest[0] = max(deepest[0], d)
        k = rnd.choice(["g", "g", "rect", "circle", "var", "loop", "if1", "if0", "reuse", "reuseg", "use", "shapetext", "point", "config", "defaults", "for"] + (["specs"] if d == 1 else []))
        if budget[0] <= 0 or d >= 7:
            k = rnd.choice(["rect", "circle", "var", "point"])
        budget[0] -= 1
        if k == "g":
            return "<g>" + "".join(node(d + 1, budget) for _ in range(rnd.randint(1, 3))) + "</g>"
        if k == "specs":
            # content of <specs> is not rendered but it is processed: its nesting counts like any other
            return "<specs>" + "".join(node(d + 1, budget) for _ in range(rnd.randint(1, 2))) + "</specs>"
        if k == "loop":
            return f'<loop count="{rnd.randint(1, 2)}">' + "".join(node(d + 1, budget) for _ in range(rnd.randint(1, 2))) + "</loop>"
        if k == "for":
            return '<for var="q" data="1, 2">' + node(d + 1, budget) + "</for>"
        if k == "if1":
            return '<if test="1">' + node(d + 1, budget) + "</if>"
        if k == "if0":
            return '<if test="0"><g><g><g><g><g><g><g><g><rect wh="1"/></g></g></g></g></g></g></g></g></if>'
        if k == "reuse":
            deepest[0] = max(deepest[0], d + 1)
            return '<reuse href="#tr" x="[[0]]"/>'
        if k == "reuseg":
            deepest[0] = max(deepest[0], d + 2)
            return '<reuse href="#tg" x="[[0]]"/>'
        return {"rect": '<rect xy="[[0]] 0" wh="1"/>', "circle": '<circle cxy="[[0]] 1" r="1"/>', "var": '<var q="1"/>', "use": '<use href="#tr" x="[[0]]"/>',
                "shapetext": '<rect xy="[[0]] 0" wh="5" text="a"/>', "point": '<point xy="[[0]] 0"/>', "config": '<config border="3"/>', "defaults": '<defaults><rect rx="1"/></defaults>'}[k]
    budget = [rnd.randint(4, 12)]
    body = "".join(node(1, budget) for _ in range(rnd.randint(1, 3)))
    # the prelude <specs><rect id="tr"/><g id="tg"><rect/></g></specs> is itself nested 3 deep
    return body, max(deepest[0], 3)


def gen_loops_doc(gseed):
    """a seeded random nest of loops with concrete pass counts; returns (markup, largest pass count of any single loop)"""
    rnd = random.Random(7200 + gseed)
    most = [0]
    cnt = [0]

    def loop(d):
        n = rnd.randint(0, 4)
        most[0] = max(most[0], n)
        cnt[0] += 1
        nm = f"c{cnt[0]}"
        form = rnd.choice(["count", "count", "while", "until", "for"])
        inner = '<rect xy="[[0]] 0" wh="1"/>' + (loop(d + 1) if d < 2 and rnd.random() < 0.5 and n > 0 else "")
        if form == "count":
            return f'<loop count="{n}">{inner}</loop>'
        if form == "for":
            if n == 0:
                most[0] = max(most[0], 1)
                return f'<for var="q" data="5">{inner}</for>'
            return f'<for var="q" data="{", ".join(str(j) for j in range(n))}">{inner}</for>'
        if form == "while":
            return f'<var {nm}="0"/><loop while="lt(${nm}, {n})">{inner}<var {nm}="{{{{${nm} + 1}}}}"/></loop>'
        m = max(n, 1)
        most[0] = max(most[0], m)
        return f'<var {nm}="0"/><loop until="ge(${nm}, {m})">{inner}<var {nm}="{{{{${nm} + 1}}}}"/></loop>'
    body = "".join(loop(0) for _ in range(rnd.randint(1, 3)))
    return body, most[0]


def templates(tier, seed):
    tds = []
    for gi in range(150 if tier == "quick" else 2500):
        for delta in (-1, 0, 1):
            tds.append(dict(fam="gen-depth", gseed=gi + 20000 * seed, delta=delta))
            tds.append(dict(fam="gen-loops", gseed=gi + 20000 * seed, delta=delta))
    for L in (0, 1, 2, 3):
        for form in ("while", "until"):
            for where in ("top", "in-g", "in-if", "in-loop", "in-if-g", "in-for", "then-config"):
                for body in ("rect", "rect+text"):
                    if where not in ("top", "in-g") and body != "rect":
                        continue
                    if where in ("in-loop", "in-for") and L == 0:
                        continue    # (the one-pass wrapper is itself over a limit of 0)
                    tds.append(dict(fam="loop-limit", L=L, form=form, where=where, body=body))
        for n in range(0, L + 3):
            tds.append(dict(fam="count-limit", L=L, n=n))
            tds.append(dict(fam="for-limit", L=L, n=n))
    for kind in KINDS:
        for slack in (2, 3):
            tds.append(dict(fam="depth-length", kind=kind, slack=slack))
    for k in (1, 2, 3, 5):
        for delta in (-1, 0, 1):
            tds.append(dict(fam="depth-nesting", k=k, delta=delta))
            for leaf in ("var", "config", "defaults", "circle", "point", "textattr", "loop1", "if1", "use", "reuse"):
                tds.append(dict(fam="depth-nesting", k=k, delta=delta, leaf=leaf))
    for nfwd in (1, 2, 3, 5, 8):
        for where in ("top", "in-g", "in-g-g"):
            for slack in (0, 1):
                tds.append(dict(fam="depth-retries", nfwd=nfwd, where=where, slack=slack))
    for lim in (4, 16):
        for delta in (-1, 0, 1):
            for ch in ("x", "é", "→", "𝄞"):
                tds.append(dict(fam="var-limit", lim=lim, delta=delta, ch=ch))
    for form in ("source-longer-than-value", "source-longer-vars", "source-longer-sum"):
        tds.append(dict(fam="var-limit-source", form=form))
    for form in ("lowered-inside-nesting", "lowered-inside-loop", "lowered-to-current", "raised-inside-nesting"):
        tds.append(dict(fam="depth-limit-dynamic", form=form))
    for form in ("same-value-after-lower-limit", "copy-of-group-attr", "copy-of-for-item", "copy-of-reuse-attr", "same-value-within-limit", "several-values-each-within-limit", "swap-at-limit", "three-values-default-limit",
                 "several-values-one-over"):
        tds.append(dict(fam="var-limit-copy", form=form))
    for form in ("config-in-body-lowers", "config-in-body-if", "config-in-body-raises", "config-in-nested"):
        tds.append(dict(fam="loop-limit-dynamic", form=form))
    for form in ("reassign-later", "reassign-later-in-g", "limit-raised-later", "self-growth", "via-g-attr"):
        tds.append(dict(fam="var-limit-final", form=form))
    for lim in (5, 24, 30):
        for ch in ("é", "→", "ab→"):
            tds.append(dict(fam="var-limit-growth", lim=lim, ch=ch))
    return tds


def twins(tier, seed):
    return [dict(fam="loop-limit", L=2, form="while", where="top", body="rect"), dict(fam="depth-length", kind="rect", slack=2)]


def count_tag(xml, tag):
    o = Out(xml)
    return len(o.by_tag(tag))


def build(td, wrong=False):
    fam = td["fam"]
    if fam == "loop-limit":
        L, form = td["L"], td["form"]
        body = '<rect xy="{{$i * 3}} 0" wh="2"/>' + ('<text xy="{{$i * 3}} 5">t</text>' if td["body"] == "rect+text" else "")
        cond = 'while="lt($i, [[0]])"' if form == "while" else 'until="ge($i, [[0]])"'
        loop = f'<loop {cond}>{body}<var i="{{{{$i + 1}}}}"/></loop>'
        tail = ""
        mult = 1
        if td["where"] == "in-g":
            loop = f"<g>{loop}</g>"
        elif td["where"] == "in-if":
            loop = f'<if test="1">{loop}</if>'
        elif td["where"] == "in-if-g":
            loop = f'<g><if test="1">{loop}</if></g>'
        elif td["where"] == "in-loop":
            loop = f'<loop count="1">{loop}</loop>'
        elif td["where"] == "in-for":
            loop = f'<for var="q" data="7">{loop}</for>'
        elif td["where"] == "then-config":
            # a limit raised later in the document does not reach back
            tail = '<config loop-limit="100"/>'
        doc = f'<svg><config loop-limit="{L}"/><var i="0"/>{loop}{tail}</svg>'
        # trips as a function of the symbolic integer bound N = v0
        trips = ite(le("v0", "0.0"), "0.0", "v0") if form == "while" else ite(le("v0", "1.0"), "1.0", "v0")
        Ls = num(L + (1 if wrong else 0))

        def check(r):
            ok = r.status == "ok"
            if r.status not in ("ok", "err"):
                return [Obl("no-crash", FAIL, ground=True, note=r.status + " " + r.docs[0]["msg"][:100])]
            bodies = count_tag(r.output, "rect") if ok else 0
            within = le(trips, Ls)
            if ok:
                # accepted: must be within the limit and not truncated
                return [Obl("accepted-only-within-limit", not_(within)), Obl("all-iterations-rendered", and_(within, ne(trips, num(bodies))))]
            msg = r.docs[0]["msg"]
            if "exceeded limit" not in msg:
                return [Obl("rejected-only-by-the-limit", FAIL, ground=True, note=msg[:200])]
            return [Obl("rejected-only-beyond-limit", within)]
        return Template(f"loop-limit/L{L}/{form}/{td['where']}/{td['body']}", doc, [(1, *NDOM)], check, family="loop-limit", role=f"C17/loop-limit/{form}", cap=16)
    if fam in ("count-limit", "for-limit"):
        L, n = td["L"], td["n"]
        if fam == "count-limit":
            loop = f'<loop count="{n}" loop-var="i"><rect xy="{{{{$i * 3}}}} [[0]]" wh="2"/></loop>'
        else:
            data = ", ".join(str(3 * j) for j in range(n))
            loop = f'<for var="x" data="{data}"><rect xy="$x [[0]]" wh="2"/></for>' if n else '<for var="x" data=""><rect xy="$x [[0]]" wh="2"/></for>'
        doc = f'<svg><config loop-limit="{L}"/>{loop}</svg>'

        def check(r):
            ok = r.status == "ok"
            if n <= L:
                good = ok and count_tag(r.output, "rect") == n
            else:
                good = r.status == "err"
            if fam == "for-limit" and n == 0:
                good = r.status in ("ok", "err")   # an empty data list is not a limit matter
            return [Obl(f"{fam}-n{n}-L{L}", PASS if good else FAIL, ground=True, note=r.status + " " + r.docs[0]["msg"][:100])]
        return Template(f"{fam}/L{L}/n{n}", doc, [(1, -8, 8, 0)], check, family=fam, role=f"C17/{fam}", cap=2)
    if fam == "depth-length":
        kind = td["kind"]
        d = DEPTH[kind]
        D = d + td["slack"] - (3 if wrong else 0)
        spec = '<specs><rect id="t" wh="1"/></specs>' if kind in ("reuse", "use") else ""
        zz = '<rect id="zz" wh="3"/>' if kind == "iffwd" else ""
        first = ""      # (a namespaced <svg> as the first element of an event list makes the whole list pass through: the kind starts with a rect)
        doc = f'<svg><config depth-limit="{D}"/>{spec}{first}<var i="0"/><loop while="lt($i, [[0]])">{KINDS[kind]}<var i="{{{{$i + 1}}}}"/></loop>{zz}</svg>'

        def check(r):
            if r.status == "ok":
                return [Obl("flat-document-accepted", PASS)]
            msg = r.docs[0]["msg"]
            if "Depth" in msg and "exceeded" in msg:
                return [Obl("flat-document-accepted", FAIL, note=msg[:200])]
            return [Obl("transform-ok", FAIL, ground=True, note=r.status + " " + msg[:200])]
        return Template(f"depth-length/{kind}/slack{td['slack']}", doc, [(1, -1, 6, 0)], check, family="depth-vs-length", role=f"C17/depth-length/{kind}", cap=12)
    if fam == "depth-nesting":
        k, delta = td["k"], td["delta"]
        depth = k + 1              # k nested groups + the innermost rect (test-suite semantics, no root svg)
        lim = depth + delta
        leaf = td.get("leaf", "rect")
        # every element counts one level, whatever it does: context-only elements (<var>, <config>, <defaults>) included;
        # <loop>/<if> count one level for themselves and their body elements one more
        lm, extra = {"rect": ('<rect xy="[[0]] 0" wh="1"/>', 0), "var": ('<var q="[[0]]"/>', 0), "config": ('<config border="3"/>', 0), "defaults": ('<defaults><rect rx="1"/></defaults>', 0),
                     "circle": ('<circle cxy="[[0]] 0" r="1"/>', 0), "point": ('<point xy="[[0]] 0"/>', 0), "textattr": ('<rect xy="[[0]] 0" wh="4" text="a"/>', 0),
                     "loop1": ('<loop count="1"><rect xy="[[0]] 0" wh="1"/></loop>', 1), "if1": ('<if test="1"><rect xy="[[0]] 0" wh="1"/></if>', 1),
                     "use": ('<use href="#tt" x="[[0]]"/>', 0), "reuse": ('<reuse href="#tt" x="[[0]]"/>', 1)}[leaf]
        depth += extra
        lim = depth + delta
        pre = '<specs><rect id="tt" wh="1"/></specs>' if leaf in ("use", "reuse") else ""
        doc = f'<config depth-limit="{lim}"/>{pre}' + "<g>" * k + lm + "</g>" * k

        def check(r):
            want_ok = depth <= lim
            good = (r.status == "ok") if want_ok else (r.status == "err")
            return [Obl(f"nesting-{depth}-limit-{lim}", PASS if good else FAIL, ground=True, note=r.status + " " + r.docs[0]["msg"][:100])]
        return Template(f"depth-nesting/k{k}/d{delta}/{leaf}", doc, [(1, -8, 8, 0)], check, family="depth-nesting", role="C17/depth-nesting", cap=2)
    if fam == "depth-retries":
        # elements that have to be retried (forward references) must not use up nesting depth
        nfwd, where = td["nfwd"], td["where"]
        fw = "".join(f'<rect xy="#later|h [[0]]" wh="{j + 1}"/>' for j in range(nfwd))
        wrap = {"top": ("", "", 2), "in-g": ("<g>", "</g>", 3), "in-g-g": ("<g><g>", "</g></g>", 4)}[where]
        depth = wrap[2]
        lim = depth + td["slack"] + (-1 if wrong else 0)
        doc = f'<svg><config depth-limit="{lim}"/>{wrap[0]}{fw}{wrap[1]}<rect id="later" xy="0" wh="2"/></svg>'

        def check(r):
            if r.status == "ok":
                return [Obl("retried-elements-do-not-consume-depth", PASS, ground=True)]
            return [Obl("retried-elements-do-not-consume-depth", FAIL, ground=True, note=r.docs[0]["msg"][:200])]
        return Template(f"depth-retries/{nfwd}/{where}/slack{td['slack']}", doc, [(1, -8, 8, 0)], check, family="depth-retries", role="C17/depth-retries", cap=2)
    if fam == "var-limit":
        lim, delta = td["lim"], td["delta"]
        ch = td.get("ch", "x")
        # the limit is on the length of the value as stored (bytes of its UTF-8 form); exactness is asserted for ASCII values,
        # for other characters only that the outcome is a result or an error - never a crash
        n = lim + delta
        doc = f'<svg><config var-limit="{lim}"/><var s="{ch * n}"/><rect xy="[[0]] 0" wh="1"/></svg>'

        def check(r):
            want_ok = n <= lim
            if ch == "x":
                good = (r.status == "ok") if want_ok else (r.status == "err")
            else:
                good = r.status in ("ok", "err") and (r.status == "err" or len(ch.encode()) * n <= lim or n <= lim)
            return [Obl(f"var-length-{n}-limit-{lim}", PASS if good else FAIL, ground=True, note=r.status + " " + r.docs[0]["msg"][:100])]
        return Template(f"var-limit/{lim}/{delta}/{ch}", doc, [(1, -8, 8, 0)], check, family="var-limit", role="C17/var-limit", cap=2)
    if fam in ("gen-depth", "gen-loops"):
        body, need = (gen_depth_doc if fam == "gen-depth" else gen_loops_doc)(td["gseed"])
        lim = need + td["delta"]
        if lim < 0:
            lim, want_ok = 0, need <= 0
        else:
            want_ok = need <= lim
        attr = "depth-limit" if fam == "gen-depth" else "loop-limit"
        pre = '<specs><rect id="tr" wh="1"/><g id="tg"><rect wh="2"/></g></specs>' if fam == "gen-depth" else ""
        # (the <config> and <specs> elements are themselves top-level elements at depth 1 / 2: below every generated document's need)
        doc = f'<config {attr}="{lim}"/>{pre}{body}'

        def check(r):
            good = (r.status == "ok") if want_ok else (r.status == "err" and "exceeded" in r.docs[0]["msg"])
            return [Obl(f"{attr}-{lim}-needed-{need}", PASS if good else FAIL, ground=True, note=r.status + " " + r.docs[0]["msg"][:120])]
        return Template(f"{fam}/{td['gseed']}/{td['delta']}", doc, [(1, -8, 8, 0)], check, family=fam, role=f"C17/{fam}", cap=2)
    if fam == "var-limit-source":
        # the limit is on the VALUE a variable gets, not on the text it is computed from
        doc = {"source-longer-than-value": '<svg><config var-limit="10"/><var total="{{1 + 2 + 3 + 4}}"/><rect xy="[[0]] $total" wh="1"/></svg>',
               "source-longer-vars": '<svg><config var-limit="4"/><var first_coordinate="1" second_coordinate="2"/><var p="$first_coordinate$second_coordinate"/><rect xy="[[0]] $p" wh="1"/></svg>',
               "source-longer-sum": '<svg><config var-limit="6"/><var t="{{' + " + ".join(["1"] * 40) + '}}"/><rect xy="[[0]] $t" wh="1"/></svg>'}[td["form"]]

        def check(r):
            return [Obl("value-within-limit-is-accepted", PASS if r.status == "ok" else FAIL, ground=True, note=r.status + " " + r.docs[0]["msg"][:100])]
        return Template(f"var-limit-source/{td['form']}", doc, [(1, -8, 8, 0)], check, family="var-limit", role="C17/var-limit", cap=2)
    if fam == "depth-limit-dynamic":
        # a limit set below the nesting already reached: the next deeper element is refused with the limit error (never a crash)
        doc, want = {"lowered-inside-nesting": ('<svg><g><g><g><config depth-limit="2"/><g><rect xy="[[0]] 0" wh="1"/></g></g></g></g></svg>', "err"),
                     "lowered-inside-loop": ('<svg><loop count="2"><g><config depth-limit="1"/><rect xy="[[0]] 0" wh="1"/></g></loop></svg>', "err"),
                     "lowered-to-current": ('<svg><g><config depth-limit="3"/><rect xy="[[0]] 0" wh="1"/></g></svg>', "ok"),
                     "raised-inside-nesting": ('<svg><config depth-limit="4"/><g><g><config depth-limit="9"/><g><g><g><rect xy="[[0]] 0" wh="1"/></g></g></g></g></g></svg>', "ok")}[td["form"]]

        def check(r):
            good = r.status == want and (want == "ok" or "exceeded" in r.docs[0]["msg"])
            return [Obl(f"depth-limit-as-configured-now/{td['form']}", PASS if good else FAIL, ground=True, note=r.status + " " + r.docs[0]["msg"][:100])]
        return Template(f"depth-limit-dynamic/{td['form']}", doc, [(1, -8, 8, 0)], check, family="depth-nesting", role="C17/depth-dynamic", cap=2)
    if fam == "var-limit-copy":
        # the limit applies to every value a <var> stores, wherever the value comes from and whether or not it changes anything
        form = td["form"]
        doc, want = {
            "same-value-after-lower-limit": ('<svg><var s="0123456789"/><config var-limit="5"/><var s="$s"/><rect xy="[[0]] 0" wh="1"/></svg>', "err"),
            "copy-of-group-attr": ('<svg><config var-limit="5"/><g s="0123456789"><var s="$s"/><rect xy="[[0]] 0" wh="1"/></g></svg>', "err"),
            "copy-of-for-item": ('<svg><config var-limit="5"/><for var="s" data="\'0123456789\'"><var s="$s"/><rect xy="[[0]] 0" wh="1"/></for></svg>', "err"),
            "copy-of-reuse-attr": ('<svg><config var-limit="5"/><specs><g id="t"><var s="$s"/><rect wh="1"/></g></specs><reuse href="#t" s="0123456789" x="[[0]]"/></svg>', "err"),
            # the limit is per value, not per <var> element
            "several-values-each-within-limit": ('<svg><config var-limit="10"/><var a="0123456789" b="abcdefghij" c="x"/><rect xy="[[0]] 0" wh="1" data-a="$a$b"/></svg>', "ok"),
            "swap-at-limit": ('<svg><config var-limit="10"/><var a="0123456789"/><var b="abcdefghij"/><var a="$b" b="$a"/><rect xy="[[0]] 0" wh="1" data-a="$a"/></svg>', "ok"),
            "three-values-default-limit": ('<svg><var a="%s" b="%s" c="%s"/><rect xy="[[0]] 0" wh="1"/></svg>' % ("a" * 400, "b" * 400, "c" * 400), "ok"),
            "several-values-one-over": ('<svg><config var-limit="10"/><var a="1" b="0123456789x"/><rect xy="[[0]] 0" wh="1"/></svg>', "err"),
            "same-value-within-limit": ('<svg><var s="01234"/><config var-limit="5"/><var s="$s"/><rect xy="[[0]] 0" wh="1"/></svg>', "ok")}[form]

        def check(r):
            return [Obl(f"var-limit-applies-to-copies/{form}", PASS if r.status == want else FAIL, ground=True, note=r.status + " " + r.docs[0]["msg"][:100])]
        return Template(f"var-limit-copy/{form}", doc, [(1, -8, 8, 0)], check, family="var-limit", role="C17/var-limit", cap=2)
    if fam == "loop-limit-dynamic":
        # the limit in force is the configured one at the time of each check: a <config> met inside a running loop counts
        form = td["form"]
        doc, want, nrect = {
            "config-in-body-lowers": ('<svg><loop count="6" loop-var="i"><config loop-limit="3"/><rect xy="{{$i * 3}} [[0]]" wh="2"/></loop></svg>', "err", None),
            "config-in-body-if": ('<svg><loop count="6" loop-var="i"><if test="eq($i, 1)"><config loop-limit="2"/></if><rect xy="{{$i * 3}} [[0]]" wh="2"/></loop></svg>', "err", None),
            "config-in-body-raises": ('<svg><config loop-limit="2"/><loop count="4" loop-var="i"><config loop-limit="10"/><rect xy="{{$i * 3}} [[0]]" wh="2"/></loop></svg>', "ok", 4),
            "config-in-nested": ('<svg><loop count="2" loop-var="j"><config loop-limit="3"/><loop count="5" loop-var="i"><rect xy="{{$i * 3}} [[0]]" wh="2"/></loop></loop></svg>', "err", None)}[form]

        def check(r):
            good = r.status == want and (nrect is None or count_tag(r.output, "rect") == nrect)
            return [Obl(f"loop-limit-as-configured-now/{form}", PASS if good else FAIL, ground=True, note=r.status + " " + r.docs[0]["msg"][:100])]
        return Template(f"loop-limit-dynamic/{form}", doc, [(1, -8, 8, 0)], check, family="loop-limit", role="C17/loop-limit/dynamic", cap=2)
    if fam == "var-limit-final":
        # exceeding the limit is final: nothing written later in the document can make the same <var> acceptable on a retry
        doc = {"reassign-later": '<svg><config var-limit="10"/><var a="0123456789"/><var b="$a$a"/><var a="x"/><rect xy="[[0]] 0" wh="1"/></svg>',
               "reassign-later-in-g": '<svg><config var-limit="10"/><g><var a="0123456789"/><var b="$a$a"/><var a="x"/></g><rect xy="[[0]] 0" wh="1"/></svg>',
               "limit-raised-later": '<svg><config var-limit="5"/><var a="123456"/><config var-limit="100"/><rect xy="[[0]] 0" wh="1"/></svg>',
               "self-growth": '<svg><config var-limit="6"/><var a="abc"/><var a="$a$a"/><var a="$a$a"/><var a="q"/><rect xy="[[0]] 0" wh="1"/></svg>',
               "via-g-attr": '<svg><config var-limit="4"/><var a="12345"/><g a="1"><rect xy="[[0]] 0" wh="1"/></g></svg>'}[td["form"]]

        def check(r):
            return [Obl("over-limit-variable-is-final", PASS if r.status == "err" else FAIL, ground=True, note=r.status + " " + r.docs[0]["msg"][:100])]
        return Template(f"var-limit-final/{td['form']}", doc, [(1, -8, 8, 0)], check, family="var-limit", role="C17/var-limit", cap=2)
    if fam == "var-limit-growth":
        lim, ch = td["lim"], td["ch"]
        doc = f'<svg><config var-limit="{lim}"/><var s="{ch}"/><loop count="12"><var s="$s$s"/></loop><rect xy="[[0]] 0" wh="1"/></svg>'

        def check(r):
            return [Obl("over-limit-variable-is-an-error-not-a-crash", PASS if r.status == "err" else FAIL, ground=True, note=r.status + " " + r.docs[0]["msg"][:100])]
        return Template(f"var-limit-growth/{lim}/{ch}", doc, [(1, -8, 8, 0)], check, family="var-limit", role="C17/var-limit", cap=2)
    raise ValueError(fam)
