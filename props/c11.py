"""C11 Uniform positioning: equivalent constraints give identical geometry (DESIGN.md §5, Appendix A)."""
import itertools, random
from fractions import Fraction
from vlib.engine import *  # noqa
from vlib import geom as G
from vlib.harness import sample_quota

PROP = "C11"
LEVEL = "model_checking"
ANCHOR_PREFIXES = ["position::", "element::SvgElement::expand_compound", "element::SvgElement::split_compound", "element::SvgElement::resolve", "element::SvgElement::translated",
                   "element::SvgElement::transmute", "element::SvgElement::bbox", "types::attr_split"]
BOUNDS = ("shapes rect/circle/ellipse/line; per axis every pair from {start,end,centre,length} (6x6), circles also one-axis-plus-one-value; longhand and the shorthands "
          "xy cxy xy1 xy2 wh rxy dxy dwh xy+xy-loc, one or two values, space/comma separators, longhand values padded with white space; positions k/2 in [-512,512], lengths k/2 in [0,256], dx/dy k/2 in [-64,64]; "
          "boxes with end>=start for rect/circle/ellipse (stated as an assumption in the query); one element per document; one axis with a length only or with nothing (SVG default position), with dx / dy / dxy; elements solved on a retry; radius spelling r for the free axis of an ellipse")
ASSUMPTIONS = ["reference semantics per axis: (s,e)->[s,e]; (s,m)->[s,2m-s]; (e,m)->[2m-e,e]; (s,l)->[s,s+l]; (e,l)->[e-l,e]; (m,l)->[m-l/2,m+l/2] (Appendix A, from the property text)",
               "circle templates assume equal extents on both axes (a circle cannot describe any other box)"]

PAIRS = [("s", "e"), ("s", "m"), ("e", "m"), ("s", "l"), ("e", "l"), ("m", "l")]
POS = (-512, 512, 1)
LEN = (0, 256, 1)
DLT = (-64, 64, 1)
INIT = {"s": 3, "e": 27, "m": 15, "l": 24}
INIT_Y = {"s": 4, "e": 28, "m": 16, "l": 24}


def axis_box(q, vals):
    a, b = vals
    if q == ("s", "e"):
        return a, b, le(a, b)
    if q == ("s", "m"):
        return a, minus(mul("2.0", b), a), le(a, b)
    if q == ("e", "m"):
        return minus(mul("2.0", b), a), a, le(b, a)
    if q == ("s", "l"):
        return a, plus(a, b), "true"
    if q == ("e", "l"):
        return minus(a, b), a, "true"
    if q == ("m", "l"):
        return minus(a, half(b)), plus(a, half(b)), "true"
    raise ValueError(q)


LONG = {"x": {"s": "x", "e": "x2", "m": "cx", "l": "width"}, "y": {"s": "y", "e": "y2", "m": "cy", "l": "height"}}
XYLOC = {("s", "s"): "tl", ("m", "s"): "t", ("e", "s"): "tr", ("e", "m"): "r", ("e", "e"): "br", ("m", "e"): "b", ("s", "e"): "bl", ("s", "m"): "l", ("m", "m"): "c"}


def spellings(shape, xp, yp):
    """list of (name, attr-string-builder) where builder maps {('x',q): placeholder, ...} to attribute text.
    Quantities: position quantities s/e/m and length l per axis."""
    out = []
    # which length attribute names
    def lname(ax):
        if shape == "ellipse":
            return [LONG[ax]["l"], "rx" if ax == "x" else "ry"]
        if shape == "circle":
            return [LONG[ax]["l"], "r"]
        return [LONG[ax]["l"]]
    # longhand (start as x/y and as x1/y1)
    for startnames in (("x", "y"), ("x1", "y1")):
        def lh(ph, startnames=startnames):
            parts = []
            for ax, pair in (("x", xp), ("y", yp)):
                for q in pair:
                    n = LONG[ax][q]
                    if q == "s":
                        n = startnames[0 if ax == "x" else 1]
                    parts.append(f'{n}="{ph[(ax, q)]}"')
            return " ".join(parts)
        out.append(("long-" + startnames[0], lh, {}))
    # longhand values padded with white space: the value is the number (a shorthand splits on the same white space)
    for pad in ((" ", ""), ("", " "), (" ", " ")):
        def lhp(ph, pad=pad):
            parts = []
            for ax, pair in (("x", xp), ("y", yp)):
                for q in pair:
                    parts.append(f'{LONG[ax][q]}="{pad[0]}{ph[(ax, q)]}{pad[1]}"')
            return " ".join(parts)
        out.append((f"long-padded[{pad[0]}|{pad[1]}]", lhp, {}))
    # shorthand for every quantity present on both axes
    common = [q for q in xp if q in yp]
    sh_names = {"s": ["xy", "xy1"], "e": ["xy2"], "m": ["cxy"], "l": ["wh"] + (["rxy"] if shape == "ellipse" else [])}
    for q in common:
        for sn in sh_names[q]:
            for sep in (" ", ",", ", ", "\t", "\n", " ,", "  "):
                def shf(ph, q=q, sn=sn, sep=sep):
                    parts = [f'{sn}="{ph[("x", q)]}{sep}{ph[("y", q)]}"']
                    for ax, pair in (("x", xp), ("y", yp)):
                        for qq in pair:
                            if qq != q:
                                parts.append(f'{LONG[ax][qq]}="{ph[(ax, qq)]}"')
                    return " ".join(parts)
                half_len = (sn == "rxy")
                out.append((f"{sn}[{sep}]", shf, {"half_len": half_len} if half_len else {}))
                if sn in ("xy1",) or sep != " ":
                    pass
    # xy + xy-loc for any mix of position quantities (one per axis)
    for qx in xp:
        for qy in yp:
            if qx == "l" or qy == "l":
                continue
            loc = XYLOC[(qx, qy)]
            def xl(ph, qx=qx, qy=qy, loc=loc):
                parts = [f'xy="{ph[("x", qx)]} {ph[("y", qy)]}" xy-loc="{loc}"']
                for ax, pair, used in (("x", xp, qx), ("y", yp, qy)):
                    for qq in pair:
                        if qq != used:
                            parts.append(f'{LONG[ax][qq]}="{ph[(ax, qq)]}"')
                return " ".join(parts)
            out.append((f"xy-loc={loc}", xl, {}))
    # native radius spellings for circle/ellipse lengths (value is the radius: l = 2*value)
    if shape in ("circle", "ellipse") and ("l" in xp or "l" in yp):
        def rad(ph):
            parts = []
            for ax, pair in (("x", xp), ("y", yp)):
                for q in pair:
                    if q == "l":
                        n = "r" if shape == "circle" else ("rx" if ax == "x" else "ry")
                        if shape == "circle" and any(p.startswith('r="') for p in parts):
                            continue
                        parts.append(f'{n}="{ph[(ax, q)]}"')
                    else:
                        parts.append(f'{LONG[ax][q]}="{ph[(ax, q)]}"')
            return " ".join(parts)
        out.append(("radius", rad, {"half_len": True}))
    # lengths spelled differently on the two axes (a radius on one, width/height on the other)
    if shape in ("circle", "ellipse") and "l" in xp and "l" in yp and shape == "ellipse":
        for xr, yr in ((True, False), (False, True)):
            def mixed(ph, xr=xr, yr=yr):
                parts = []
                for ax, pair, rad in (("x", xp, xr), ("y", yp, yr)):
                    for q in pair:
                        if q == "l" and rad:
                            parts.append(f'{"rx" if ax == "x" else "ry"}="{ph[(ax, q)]}"')
                        else:
                            parts.append(f'{LONG[ax][q]}="{ph[(ax, q)]}"')
                return " ".join(parts)
            out.append((f"mixed-{'rx' if xr else 'w'}-{'ry' if yr else 'h'}", mixed, {"half_x": xr, "half_y": yr}))
    # an ellipse accepts the plain radius spelling r for the one axis whose length is not fixed by two positions
    if shape == "ellipse" and (("l" in xp) != ("l" in yp)):
        def er(ph):
            parts = []
            for ax, pair in (("x", xp), ("y", yp)):
                for q in pair:
                    parts.append(f'r="{ph[(ax, q)]}"' if q == "l" else f'{LONG[ax][q]}="{ph[(ax, q)]}"')
            return " ".join(parts)
        out.append(("ellipse-r", er, {"half_x": "l" in xp, "half_y": "l" in yp}))
    return out


def templates(tier, seed):
    tds = []
    for shape in ("rect", "circle", "ellipse", "line"):
        for xp in PAIRS:
            for yp in PAIRS:
                n = len(spellings(shape, xp, yp))
                for si in range(n):
                    for delta in (None, "dxdy", "dxy"):
                        tds.append(dict(fam="pairs", shape=shape, xp=list(xp), yp=list(yp), sp=si, delta=delta))
                    if si == 0:
                        # the element has to wait for a later one (it is solved on a retry): same result, offsets applied once
                        tds.append(dict(fam="pairs", shape=shape, xp=list(xp), yp=list(yp), sp=si, delta="dxdy", held=True))
    # one axis fully given, the other with a length only or nothing at all (SVG default position 0: the corner of a rect, the
    # centre of a circle / ellipse), with and without dx / dy / dxy
    for shape in ("rect", "circle", "ellipse"):
        for full_axis in ("x", "y", "none"):
            for pair in PAIRS:
                for delta in (None, "dx", "dy", "dxdy", "dxy"):
                    for sizeform in ("wh", "long"):
                        if full_axis == "none" and pair != PAIRS[0]:
                            continue
                        tds.append(dict(fam="open-axis", shape=shape, full=full_axis, pair=list(pair), delta=delta, sizeform=sizeform))
    # circles: one full axis plus a single value on the other axis
    for full_axis in ("x", "y"):
        for p in PAIRS:
            for single in ("s", "m", "e"):
                tds.append(dict(fam="circle3", full=full_axis, pair=list(p), single=single))
    # one-value shorthands
    for shape in ("rect", "ellipse", "line", "circle"):
        for form in ("xy+wh", "cxy+wh", "xy1+xy2", "xy2+wh", "dxy1"):
            tds.append(dict(fam="single", shape=shape, form=form))
    # dwh / dw dh equivalence (twin documents)
    for shape in ("rect", "ellipse", "line"):
        for kind in ("abs", "pct"):
            tds.append(dict(fam="dwh", shape=shape, kind=kind))
    return tds


def twins(tier, seed):
    return [dict(fam="pairs", shape="rect", xp=["s", "m"], yp=["e", "l"], sp=0, delta=None),
            dict(fam="pairs", shape="ellipse", xp=["m", "l"], yp=["s", "e"], sp=0, delta="dxdy"),
            dict(fam="circle3", full="x", pair=["s", "e"], single="m")]


def native_attrs_match(o, el, shape, bx, wrong=False):
    """equalities between the element's native attributes and box bx (a G.Box)"""
    if shape == "rect":
        return [("x", o.num(el, "x"), bx.x1), ("y", o.num(el, "y"), bx.y1), ("width", o.num(el, "width", None), bx.w), ("height", o.num(el, "height", None), bx.h)]
    if shape == "circle":
        return [("cx", o.num(el, "cx"), bx.cx), ("cy", o.num(el, "cy"), bx.cy), ("r", o.num(el, "r", None), half(bx.w))]
    if shape == "ellipse":
        return [("cx", o.num(el, "cx"), bx.cx), ("cy", o.num(el, "cy"), bx.cy), ("rx", o.num(el, "rx", None), half(bx.w)), ("ry", o.num(el, "ry", None), half(bx.h))]
    if shape == "line":
        return [("x1", o.num(el, "x1"), bx.x1), ("y1", o.num(el, "y1"), bx.y1), ("x2", o.num(el, "x2"), bx.x2), ("y2", o.num(el, "y2"), bx.y2)]
    raise ValueError(shape)


def mk_check(shape, bx, wrong, nelem=1, idx=0):
    def check(r):
        if r.status != "ok":
            return [Obl("transform-ok", FAIL, ground=True, note=r.docs[0]["msg"][:200])]
        o = Out(r.output)
        els = o.by_tag(shape)
        if len(els) != nelem:
            return [Obl("element-present", FAIL, ground=True)]
        el = els[idx]
        obls = []
        b = bx
        if wrong:
            b = G.Box(plus(bx.x1, "1.0"), bx.y1, plus(bx.x2, "1.0"), bx.y2)
        try:
            for name, got, exp in native_attrs_match(o, el, shape, b):
                obls.append(Obl(name, ne(got, exp)))
        except KeyError as e:
            obls.append(Obl("native-attr-present", FAIL, ground=True, note=str(e)))
        bad = G.foreign_geom_attrs(o, el)
        obls.append(Obl("only-native-geometry-attrs", FAIL if bad else PASS, ground=True, note=",".join(bad)))
        return obls
    return check


def build(td, wrong=False):
    fam = td["fam"]
    if fam == "pairs":
        shape, xp, yp = td["shape"], tuple(td["xp"]), tuple(td["yp"])
        vars_ = []
        ph = {}
        for ax, pair, init in (("x", xp, INIT), ("y", yp, INIT_Y)):
            for q in pair:
                dom = LEN if q == "l" else POS
                ph[(ax, q)] = f"[[{len(vars_)}]]"
                vars_.append((init[q], dom[0], dom[1], dom[2]))
        name, fn, opt = spellings(shape, xp, yp)[td["sp"]]
        # circle with a single r: both axes share the radius variable
        shared_r = shape == "circle" and opt.get("half_len") and "l" in xp and "l" in yp
        if shared_r:
            ph[("y", "l")] = ph[("x", "l")]
        attrs = fn(ph)
        vx = [f"v{int(ph[('x', q)][2:-2])}" for q in xp]
        vy = [f"v{int(ph[('y', q)][2:-2])}" for q in yp]
        if opt.get("half_len") or opt.get("half_x"):
            vx = [mul("2.0", t) if q == "l" else t for q, t in zip(xp, vx)]
        if opt.get("half_len") or opt.get("half_y"):
            vy = [mul("2.0", t) if q == "l" else t for q, t in zip(yp, vy)]
        x1, x2, ax_ = axis_box(xp, vx)
        y1, y2, ay_ = axis_box(yp, vy)
        assume = []
        if shape != "line":
            assume += [ax_, ay_]
        if shape == "circle":
            assume.append(eq(minus(x2, x1), minus(y2, y1)))
        bx = G.Box(x1, y1, x2, y2)
        if td["delta"]:
            kx, ky = len(vars_), len(vars_) + 1
            vars_ += [(5, *DLT), (-7, *DLT)]
            if td["delta"] == "dxdy":
                attrs += f' dx="[[{kx}]]" dy="[[{ky}]]"'
            else:
                attrs += f' dxy="[[{kx}]] [[{ky}]]"'
            bx = bx.translate(f"v{kx}", f"v{ky}")
        doc = f"<svg><{shape} {attrs}/></svg>"
        if td.get("held"):
            doc = f'<svg><{shape} {attrs} data-w="{{{{#zz~w}}}}"/><rect id="zz" x="900" y="900" width="2" height="2"/></svg>'
        assume = [a for a in assume if a != "true"]
        return Template(f"pairs/{shape}/{''.join(xp)}-{''.join(yp)}/{name}/{td['delta']}" + ("/held" if td.get("held") else ""), doc, vars_, mk_check(shape, bx, wrong, nelem=2 if (td.get("held") and shape == "rect") else 1),
                        family=f"pairs-{shape}", role=f"C11/pairs/{shape}", assume=and_(*assume) if assume else None, cap=8)
    if fam == "circle3":
        pair = tuple(td["pair"])
        full, single = td["full"], td["single"]
        other = "y" if full == "x" else "x"
        vars_ = []
        ph = {}
        init = INIT if full == "x" else INIT_Y
        for q in pair:
            dom = LEN if q == "l" else POS
            ph[(full, q)] = f"[[{len(vars_)}]]"
            vars_.append((init[q], dom[0], dom[1], dom[2]))
        ks = len(vars_)
        vars_.append((40, *POS))
        attrs = " ".join(f'{LONG[full][q]}="{ph[(full, q)]}"' for q in pair) + f' {LONG[other][single]}="[[{ks}]]"'
        a1, a2, asm = axis_box(pair, [f"v{k}" for k in range(len(pair))])
        ext = minus(a2, a1)
        sv = f"v{ks}"
        if single == "s":
            b1, b2 = sv, plus(sv, ext)
        elif single == "m":
            b1, b2 = minus(sv, half(ext)), plus(sv, half(ext))
        else:
            b1, b2 = minus(sv, ext), sv
        bx = G.Box(a1, b1, a2, b2) if full == "x" else G.Box(b1, a1, b2, a2)
        doc = f"<svg><circle {attrs}/></svg>"
        return Template(f"circle3/{full}/{''.join(pair)}/{single}", doc, vars_, mk_check("circle", bx, wrong), family="circle-three-point", role="C11/circle3",
                        assume=None if asm == "true" else asm, cap=8)
    if fam == "open-axis":
        shape, full, pair, delta, sf = td["shape"], td["full"], tuple(td["pair"]), td["delta"], td["sizeform"]
        vars_ = [(4, *POS), (30, *POS), (20, *LEN), (12, *LEN)]       # two position-like values, width, height
        W_, H_ = "v2", "v3"
        if shape == "circle":
            H_ = W_
        # attribute names per axis
        nm = {"x": {"s": "x" if shape != "line" else "x1", "e": "x2", "m": "cx"}, "y": {"s": "y", "e": "y2", "m": "cy"}}
        attrs = []
        ext = {}
        for ax in ("x", "y"):
            L = W_ if ax == "x" else H_
            if ax == full:
                qs = [q for q in pair]
                # the length comes from the size attributes below; the axis gets ONE position value besides (start, end or centre)
                q = next((q for q in qs if q != "l"), "s")
                attrs.append(f'{nm[ax][q]}="[[{0 if ax == "x" else 1}]]"')
                v = "v0" if ax == "x" else "v1"
                ext[ax] = {"s": (v, plus(v, L)), "e": (minus(v, L), v), "m": (minus(v, half(L)), plus(v, half(L)))}[q]
            else:
                ext[ax] = ("0.0", L) if shape == "rect" else (neg(half(L)), half(L))
        if shape == "circle":
            attrs.append('wh="[[2]]"' if sf == "wh" else 'r="{{[[2]] / 2}}"')
        elif shape == "ellipse":
            attrs.append('wh="[[2]] [[3]]"' if sf == "wh" else 'rx="{{[[2]] / 2}}" ry="{{[[3]] / 2}}"')
        else:
            attrs.append('wh="[[2]] [[3]]"' if sf == "wh" else 'width="[[2]]" height="[[3]]"')
        bx = G.Box(ext["x"][0], ext["y"][0], ext["x"][1], ext["y"][1])
        if delta:
            kx = len(vars_)
            vars_ += [(5, *DLT), (-7, *DLT)]
            dx, dy = f"v{kx}", f"v{kx + 1}"
            if delta == "dx":
                attrs.append(f'dx="[[{kx}]]"'); dy = "0.0"
            elif delta == "dy":
                attrs.append(f'dy="[[{kx + 1}]]"'); dx = "0.0"
            elif delta == "dxdy":
                attrs.append(f'dx="[[{kx}]]" dy="[[{kx + 1}]]"')
            else:
                attrs.append(f'dxy="[[{kx}]] [[{kx + 1}]]"')
            bx = bx.translate(dx, dy)
        doc = f"<svg><{shape} {' '.join(attrs)}/></svg>"
        return Template(f"open-axis/{shape}/{full}/{''.join(pair)}/{delta}/{sf}", doc, vars_, mk_check(shape, bx, wrong), family=f"open-axis-{shape}", role=f"C11/open-axis/{shape}", cap=8)
    if fam == "single":
        shape, form = td["shape"], td["form"]
        # one value given to a two-value shorthand means the same value on both axes
        vars_ = [(6, *POS), (20, *LEN)]
        a, l = "v0", "v1"
        lattr = {"rect": 'wh="[[1]]"', "ellipse": 'wh="[[1]]"', "line": 'wh="[[1]]"', "circle": 'wh="[[1]]"'}[shape]
        if form == "xy+wh":
            attrs = f'xy="[[0]]" {lattr}'
            bx = G.Box(a, a, plus(a, l), plus(a, l))
        elif form == "cxy+wh":
            attrs = f'cxy="[[0]]" {lattr}'
            bx = G.Box(minus(a, half(l)), minus(a, half(l)), plus(a, half(l)), plus(a, half(l)))
        elif form == "xy1+xy2":
            vars_ = [(6, *POS), (20, *POS)]
            attrs = 'xy1="[[0]]" xy2="[[1]]"'
            bx = G.Box("v0", "v0", "v1", "v1")
        elif form == "xy2+wh":
            attrs = f'xy2="[[0]]" {lattr}'
            bx = G.Box(minus(a, l), minus(a, l), a, a)
        else:  # dxy with one value
            vars_ = [(6, *POS), (20, *LEN), (3, *DLT)]
            attrs = f'xy="[[0]]" {lattr} dxy="[[2]]"'
            bx = G.Box(a, a, plus(a, l), plus(a, l)).translate("v2", "v2")
        assume = le("v0", "v1") if (form == "xy1+xy2" and shape != "line") else None
        doc = f"<svg><{shape} {attrs}/></svg>"
        return Template(f"single/{shape}/{form}", doc, vars_, mk_check(shape, bx, wrong), family="single-value-shorthand", role=f"C11/single/{shape}", assume=assume, cap=8)
    if fam == "dwh":
        shape, kind = td["shape"], td["kind"]
        if kind == "abs":
            vars_ = [(3, *POS), (4, *POS), (20, *LEN), (10, *LEN), (2, 0, 32, 1), (6, 0, 32, 1)]
            d1 = f'<svg><{shape} xy="[[0]] [[1]]" wh="[[2]] [[3]]" dwh="[[4]] [[5]]"/></svg>'
            d2 = f'<svg><{shape} xy="[[0]] [[1]]" wh="[[2]] [[3]]" dw="[[4]]" dh="[[5]]"/></svg>'
        else:
            vars_ = [(3, *POS), (4, *POS), (20, 0, 256, 0), (12, 0, 256, 0)]
            d1 = f'<svg><{shape} xy="[[0]] [[1]]" wh="[[2]] [[3]]" dwh="50% 25%"/></svg>'
            d2 = f'<svg><{shape} xy="[[0]] [[1]]" wh="[[2]] [[3]]" dw="50%" dh="25%"/></svg>'

        # third document: the adjusted size written out
        if kind == "abs":
            d3 = f'<svg><{shape} xy="[[0]] [[1]]" wh="{{{{[[2]] + [[4]]}}}} {{{{[[3]] + [[5]]}}}}"/></svg>'
        else:
            d3 = f'<svg><{shape} xy="[[0]] [[1]]" wh="{{{{[[2]] * 0.5}}}} {{{{[[3]] * 0.25}}}}"/></svg>'
        if shape == "line":
            d1, d2, d3 = (d.replace(' xy="', ' xy1="') for d in (d1, d2, d3))

        def check(r):
            if any(d["status"] != "ok" for d in r.docs):
                return [Obl("transform-ok", FAIL, ground=True)]
            o1, o2, o3 = Out(r.docs[0]["output"]), Out(r.docs[1]["output"]), Out(r.docs[2]["output"])
            e1, e2, e3 = o1.by_tag(shape)[0], o2.by_tag(shape)[0], o3.by_tag(shape)[0]
            obls = []
            if sorted(e1.attrib) != sorted(e2.attrib) or (shape != "ellipse" and sorted(e1.attrib) != sorted(e3.attrib)):
                return [Obl("same-attribute-names", FAIL, ground=True)]
            for a in e1.attrib:
                if a in G.GEOM_ATTRS:
                    x, y = o1.num(e1, a), o2.num(e2, a)
                    if wrong:
                        y = plus(y, "1.0")
                    obls.append(Obl(f"dwh≡dw,dh:{a}", ne(x, y)))
                    if shape != "ellipse":      # (dw / dh on an ellipse sized via wh are ignored on the pinned tree: observed, not asserted)
                        obls.append(Obl(f"dwh≡adjusted-size-written-out:{a}", ne(x, o3.num(e3, a))))
            bad = G.foreign_geom_attrs(o1, e1)
            obls.append(Obl("only-native-geometry-attrs", FAIL if bad else PASS, ground=True, note=",".join(bad)))
            return obls
        return Template(f"dwh/{shape}/{kind}", [d1, d2, d3], vars_, check, family="dwh-shorthand", role="C11/dwh", cap=8)
    raise ValueError(fam)
