"""C19 Shape text: placement, tspans and alignment classes (the string-fidelity half is not applicable). DESIGN.md §5, Appendix A."""
import random, itertools, re
from fractions import Fraction
from vlib.engine import *  # noqa
from vlib import geom as G
from vlib.harness import sample_quota

PROP = "C19"
LEVEL = "model_checking"
ANCHOR_PREFIXES = ["text::", "element::SvgElement::element_events", "transform::", "position::BoundingBox::locspec", "position::Length::calc_offset"]
BOUNDS = ("carriers {text attribute, element content}; shapes {rect, circle, ellipse, line, point, box, standalone text}; text-loc in the 9 named locations and the 4 edges with 25% / symbolic offset; "
          "default / d-text-inside / d-text-outside; horizontal and d-text-vertical; 1-3 lines; symbolic shape geometry (k/2 in [-128,128], sizes k/2 in [0,64]), text-offset (k/2 in [-8,8]), "
          "text-dx/dy/dxy (k/2 in [-16,16]), text-lsp (k/4 in [0.5,2]); each of the 17 text presentation attributes and text-style on rect / line / text carriers, with and without d-text-vertical; "
          "<text> elements positioned at a named location, an edge location or a |h|H|v|V direction of another element (implicit text-loc against the explicit spelling); text-dxy combined with text-dx / text-dy; blank-line forms (leading, trailing, middle, CRLF); text-lsp / text-style on single-line text; carriers held back by a later element; seeded random combinations of all options (quick 300, thorough 4000); a <text> element's own transform (rotate / translate+scale / matrix; attribute, content, multi-line); no svgdx-only text-* attribute on any output element")
ASSUMPTIONS = ["a specific text-dx / text-dy takes precedence over the corresponding component of text-dxy; a line terminator ends a line (no extra line after the last one), blank lines count as lines and may be rendered as a zero-width space",
               "anchor = text-loc location of the shape's box (default c); offset o = text-offset (default 1): inside top => y+o, bottom => y-o, left => x+o, right => x-o; outside (default for line, point, "
               "text; or d-text-outside): signs reversed; then + text-dx/dy (property text)",
               "alignment class: the text extends away from the edge it is anchored to: inside-top/outside-bottom => d-text-top, inside-bottom/outside-top => d-text-bottom, likewise left/right; "
               "-vertical variants with d-text-vertical; d-text always",
               "n lines => n tspans; first line offset 0 / -(n-1)*lsp / -(n-1)/2*lsp em for text growing away from / towards / around the anchor, then lsp em each (lsp = text-lsp, default 1.05)"]

P = (-128, 128, 1)
S = (0, 64, 1)
O = (-8, 8, 1)
D = (-16, 16, 1)
LSP = (Fraction(1, 2), 2, 2)
LOCS = ["tl", "t", "tr", "r", "br", "b", "bl", "l", "c"]


def shape_markup(kind, k0):
    a = [f"[[{k0 + j}]]" for j in range(4)]
    v_ = [f"v{k0 + j}" for j in range(4)]
    if kind == "rect":
        return '<rect id="s" xy="%s %s" wh="%s %s"{T}' % tuple(a), [(3, *P), (4, *P), (20, *S), (10, *S)], lambda: G.Box(v_[0], v_[1], plus(v_[0], v_[2]), plus(v_[1], v_[3])), True
    if kind == "circle":
        return '<circle id="s" cxy="%s %s" r="%s"{T}' % tuple(a[:3]), [(13, *P), (9, *P), (8, *S)], lambda: G.Box(minus(v_[0], v_[2]), minus(v_[1], v_[2]), plus(v_[0], v_[2]), plus(v_[1], v_[2])), True
    if kind == "ellipse":
        return '<ellipse id="s" cxy="%s %s" rxy="%s %s"{T}' % tuple(a), [(13, *P), (9, *P), (10, *S), (6, *S)], lambda: G.Box(minus(v_[0], v_[2]), minus(v_[1], v_[3]), plus(v_[0], v_[2]), plus(v_[1], v_[3])), True
    if kind == "line":
        return '<line id="s" xy1="%s %s" xy2="%s %s"{T}' % tuple(a), [(3, *P), (14, *P), (23, *P), (4, *P)], lambda: G.Box(rmin(v_[0], v_[2]), rmin(v_[1], v_[3]), rmax(v_[0], v_[2]), rmax(v_[1], v_[3])), True
    if kind == "point":
        return '<point id="s" xy="%s %s"{T}' % tuple(a[:2]), [(3, *P), (14, *P)], lambda: G.Box(v_[0], v_[1], v_[0], v_[1]), False
    if kind == "box":
        return '<box id="s" xy="%s %s" wh="%s %s"{T}' % tuple(a), [(3, *P), (4, *P), (20, *S), (10, *S)], lambda: G.Box(v_[0], v_[1], plus(v_[0], v_[2]), plus(v_[1], v_[3])), False
    if kind == "text":
        return '<text id="s" xy="%s %s"{T}' % tuple(a[:2]), [(3, *P), (14, *P)], lambda: G.Box(v_[0], v_[1], v_[0], v_[1]), False
    raise ValueError(kind)


def templates(tier, seed):
    tds = []
    kinds = ["rect", "circle", "ellipse", "line", "point", "box", "text"]
    for k in kinds:
        for loc in LOCS + ["t:25%", "r:o", "b:o", "l:25%"]:
            for mode in ("default", "inside", "outside"):
                for off in ("default", "sym"):
                    for dxy in ("none", "dx+dy", "dxy"):
                        for vert in (False, True):
                            if vert and (off == "sym" or dxy != "none"):
                                continue
                            tds.append(dict(fam="place", kind=k, loc=loc, mode=mode, off=off, dxy=dxy, vert=vert, lines=1, carrier="attr"))
    for k in ("rect", "line", "circle", "point"):
        for loc in LOCS:
            for mode in ("default", "outside"):
                for n in (2, 3):
                    for vert in (False, True):
                        for lsp in ("default", "sym"):
                            tds.append(dict(fam="multiline", kind=k, loc=loc, mode=mode, off="default", dxy="none", vert=vert, lines=n, carrier="attr", lsp=lsp))
    for k in ("rect", "circle", "ellipse", "line", "text"):
        for loc in ("c", "tl", "b"):
            for n in (1, 2):
                tds.append(dict(fam="content", kind=k, loc=loc, mode="default", off="sym", dxy="none", vert=False, lines=n, carrier="content"))
    for k in ("rect", "line", "text", "circle"):
        for loc in ("c", "tl", "b", "r"):
            for dxy in ("dxy+dy", "dxy+dx", "dxy+dx+dy"):
                tds.append(dict(fam="place", kind=k, loc=loc, mode="default", off="default", dxy=dxy, vert=False, lines=1, carrier="attr"))
            # line spacing given although the text has a single line: still a text attribute
            tds.append(dict(fam="place", kind=k, loc=loc, mode="default", off="default", dxy="none", vert=False, lines=1, carrier="attr", lsp="sym"))
            tds.append(dict(fam="place", kind=k, loc=loc, mode="default", off="default", dxy="none", vert=False, lines=1, carrier="attr", tstyle=True))
    # blank lines are lines: leading, trailing (beyond the final line terminator) and in the middle
    for k in ("rect", "line", "text"):
        for loc in ("c", "t", "b", "l"):
            for form in ("trail2", "lead", "mid", "trail3", "only-nl", "crlf"):
                for carrier in ("attr", "content"):
                    tds.append(dict(fam="blanklines", kind=k, loc=loc, mode="default", off="default", dxy="none", vert=False, lines=0, carrier=carrier, form=form))
    # seeded random combinations of every option at once (the families above vary them mostly one or two at a time)
    rc = random.Random(777 + seed)
    for i in range(300 if tier == "quick" else 4000):
        vert = rc.random() < 0.2
        lines = rc.choice([1, 1, 2, 3])
        td = dict(fam="combo", kind=rc.choice(kinds), loc=rc.choice(LOCS + ["t:25%", "r:o", "b:o", "l:25%"]), mode=rc.choice(["default", "inside", "outside"]),
                  off="default" if vert else rc.choice(["default", "sym"]), dxy="none" if vert else rc.choice(["none", "dx+dy", "dxy", "dxy+dy", "dxy+dx"]), vert=vert, lines=lines,
                  carrier=rc.choice(["attr", "attr", "content"]))
        if lines > 1 or rc.random() < 0.3:
            td["lsp"] = rc.choice(["default", "sym"])
        if rc.random() < 0.3:
            td["tstyle"] = True
        if rc.random() < 0.25 and td["carrier"] == "attr":
            td["held"] = True
        if td["carrier"] == "content" and td["kind"] in ("point", "box"):
            td["carrier"] = "attr"
        tds.append(td)
    # the carrier has to wait for a later element (it is processed on a retry): same placement
    for k in kinds:
        for loc in ("tl", "r", "b:o", "c"):
            for mode in ("default", "outside"):
                for n in (1, 2):
                    tds.append(dict(fam="held", kind=k, loc=loc, mode=mode, off="sym", dxy="dx+dy", vert=False, lines=n, carrier="attr", held=True))
    PRES = ["alignment-baseline=middle", "font-family=monospace", "font-size=3", "font-size-adjust=0.5", "font-stretch=condensed", "font-style=italic", "font-variant=small-caps",
            "font-weight=bold", "text-decoration=underline", "text-rendering=optimizeSpeed", "text-anchor=end", "textLength=20", "lengthAdjust=spacing", "word-spacing=2",
            "letter-spacing=1", "writing-mode=vertical-lr", "unicode-bidi=embed", "text-style=fill:blue"]
    for k in ("rect", "line", "text"):
        for pa in PRES:
            for vert in (False, True):
                for lines in (1, 2):
                    tds.append(dict(fam="attrs", kind=k, pa=pa, vert=vert, lines=lines))
    for k in ("rect", "circle", "text"):
        for vert in (False, True):
            tds.append(dict(fam="attrs", kind=k, pa="+".join(PRES[:6]), vert=vert, lines=1))
    for ref in ("@tl", "@t", "@tr", "@r", "@br", "@b", "@bl", "@l", "@c", "@t:25%", "@b:3", "@l:25%", "@r:3", "@l:75%", "@r:10%", "|h", "|H", "|v", "|V"):
        for gap in ("", " 2"):
            for mode in ("default", "inside"):
                tds.append(dict(fam="textref", ref=ref, gap=gap, mode=mode))
        # an explicit text-loc is the author's: the one derived from the reference is only a default
        for explicit in ("t", "bl", "c", "r"):
            tds.append(dict(fam="textref-explicit", ref=ref, explicit=explicit))
    for form in ("var-x", "var-xy", "expr-y", "ref-x"):
        for loc in ("r", "tl", "c", "b"):
            tds.append(dict(fam="textcontent-coords", form=form, loc=loc))
    for form in ("attr", "content", "multiline"):
        for xf in ("rotate(45)", "translate(3 4) scale(2)", "matrix(1 0 0 1 5 6)"):
            tds.append(dict(fam="text-own-transform", form=form, xf=xf))
    return tds


def build_attrs(td, wrong):
    kind, vert, n = td["kind"], td["vert"], td["lines"]
    sm, vars_, vbox, visible = shape_markup(kind, 0)
    pas = [p.split("=", 1) for p in td["pa"].split("+")]
    extra = "".join(f' {a}="{v}"' for a, v in pas) + ' stroke-width="3" opacity="0.5" data-keep="yes"'
    if vert:
        extra += ' class="d-text-vertical d-red"'
    else:
        extra += ' class="d-red"'
    txt = "\\n".join(["one", "two", "three"][:n])
    doc = "<svg>" + sm.replace("{T}", f'{extra} text="{txt}"/>') + "</svg>"

    def check(r):
        if r.status != "ok":
            return [Obl("transform-ok", FAIL, ground=True, note=r.docs[0]["msg"][:200])]
        o = Out(r.output)
        texts = o.by_tag("text")
        if len(texts) != 1:
            return [Obl("one-text-element", FAIL, ground=True, note=f"{len(texts)} text elements")]
        t = texts[0]
        obls = []
        sh = o.by_id("s") if kind != "text" else None
        for a, v in pas:
            on_text = "style" if a == "text-style" else a
            want = "wrong" if wrong else v
            obls.append(Obl(f"{a}-reaches-the-text-element", PASS if t.get(on_text) == want else FAIL, ground=True, note=f"{t.get(on_text)!r} expected {v!r}"))
            if sh is not None:
                obls.append(Obl(f"{a}-leaves-the-shape", PASS if sh.get(a) is None else FAIL, ground=True, note=str(sh.get(a))))
        obls.append(svgdx_text_attrs_consumed(o))
        if vert and not any(a == "writing-mode" for a, _ in pas):
            obls.append(Obl("vertical-default-writing-mode", PASS if t.get("writing-mode") == "tb" else FAIL, ground=True, note=str(t.get("writing-mode"))))
        if sh is not None:
            for a, v in (("stroke-width", "3"), ("opacity", "0.5"), ("data-keep", "yes")):
                obls.append(Obl(f"shape-keeps-{a}", PASS if sh.get(a) == v else FAIL, ground=True, note=str(sh.get(a))))
                obls.append(Obl(f"text-does-not-take-{a}", PASS if t.get(a) is None else FAIL, ground=True, note=str(t.get(a))))
        return obls
    return Template(f"attrs/{kind}/{td['pa'][:40]}/{'v' if vert else 'h'}/{n}", doc, list(vars_), check, family="attrs", role=f"C19/attrs/{kind}", cap=2)


def build_textref(td, wrong):
    """a <text> element positioned at a location of another element takes that location as its default text-loc
    (CHANGELOG 'automatic text-loc anchoring depending on the relative position'): compared with the explicit spelling"""
    from vlib.twin import compare_outputs
    ref, gap, mode = td["ref"], td["gap"], td["mode"]
    vars_ = [(3, *P), (4, *P), (20, *S), (10, *S)]
    z = '<rect id="z" xy="[[0]] [[1]]" wh="[[2]] [[3]]"/>'
    key = ref.lstrip("@|").split(":")[0]
    loc = {"h": "r", "H": "l", "v": "b", "V": "t"}.get(key, key)
    if wrong:
        loc = {"r": "l", "l": "r", "t": "b", "b": "t", "c": "t"}.get(loc, "c")
    cls = ' class="d-text-inside"' if mode == "inside" else ""
    if ref.startswith("|") or gap == "":
        xy = f"#z{ref}{gap}"
    else:
        xy = f"#z{ref}{gap} 1"
    d0 = f'<svg>{z}<text xy="{xy}"{cls} text="hi"/></svg>'
    d1 = f'<svg>{z}<text xy="{xy}"{cls} text-loc="{loc}" text="hi"/></svg>'

    def check(r):
        if r.docs[1]["status"] != "ok":
            return [Obl("explicit-spelling-ok", PASS, ground=True, note=r.docs[1]["msg"][:100])]
        if r.docs[0]["status"] != "ok":
            return [Obl("transform-ok", FAIL, ground=True, note=r.docs[0]["msg"][:200])]
        return compare_outputs(Out(r.docs[0]["output"]), Out(r.docs[1]["output"]))
    return Template(f"textref/{ref}/{gap.strip()}/{mode}", [d0, d1], vars_, check, family="textref", role="C19/textref", cap=4)


def build_textref_explicit(td, wrong):
    """<text xy="#z@LOC" text-loc="E">: placed like a text at that point with text-loc E (the reference fixes the point only)"""
    from vlib.twin import compare_outputs
    ref, E = td["ref"], td["explicit"]
    vars_ = [(3, *P), (4, *P), (20, *S), (10, *S)]
    z = '<rect id="z" xy="[[0]] [[1]]" wh="[[2]] [[3]]"/>'
    d0 = f'<svg>{z}<text xy="#z{ref}" text-loc="{E}" text="hi"/></svg>'
    # the twin: the same point reached through a phantom point element, so that no location can be derived for the text itself
    E2 = {"t": "b", "bl": "tr", "c": "l", "r": "t"}[E] if wrong else E
    d1 = f'<svg>{z}<point id="pp" xy="#z{ref}"/><text xy="#pp" text-loc="{E2}" text="hi"/></svg>'

    def check(r):
        if r.docs[1]["status"] != "ok":
            raise RuntimeError("twin rejected: " + r.docs[1]["msg"][:200])
        if r.docs[0]["status"] != "ok":
            return [Obl("transform-ok", FAIL, ground=True, note=r.docs[0]["msg"][:200])]
        return compare_outputs(Out(r.docs[0]["output"]), Out(r.docs[1]["output"]))
    return Template(f"textref-explicit/{ref}/{E}", [d0, d1], vars_, check, family="textref", role="C19/textref", cap=4)


def build_textcontent_coords(td, wrong):
    """<text> with character content whose x / y come from a variable, an expression or an element reference: the same
    generated text as with the numbers written out"""
    from vlib.twin import compare_outputs
    form, loc = td["form"], td["loc"]
    vars_ = [(4, *P), (7, *P)]
    pre = '<var a="[[0]]" b="[[1]]"/><rect id="z" xy="[[0]] 30" wh="5 6"/>'
    xy = {"var-x": 'x="$a" y="[[1]]"', "var-xy": 'x="$a" y="$b"', "expr-y": 'x="[[0]]" y="{{$b + 0}}"', "ref-x": 'x="#z~x" y="[[1]]"'}[form]
    locw = {"r": "l", "tl": "br", "c": "t", "b": "t"}[loc] if wrong else loc
    d0 = f'<svg>{pre}<text {xy} text-loc="{loc}">lbl</text></svg>'
    d1 = f'<svg>{pre}<text x="[[0]]" y="[[1]]" text-loc="{locw}">lbl</text></svg>'

    def check(r):
        if r.docs[1]["status"] != "ok":
            raise RuntimeError("twin rejected: " + r.docs[1]["msg"][:200])
        if r.docs[0]["status"] != "ok":
            return [Obl("transform-ok", FAIL, ground=True, note=r.docs[0]["msg"][:200])]
        return compare_outputs(Out(r.docs[0]["output"]), Out(r.docs[1]["output"]))
    return Template(f"textcontent-coords/{form}/{loc}", [d0, d1], vars_, check, family="textcontent-coords", role="C19/textcontent", cap=4)


SVG_TEXT_ATTRS = {"text-anchor", "text-decoration", "text-rendering"}


def svgdx_text_attrs_consumed(o):
    """the text-* attributes that are svgdx's own (text, text-loc, text-offset, text-dx / dy / dxy, text-lsp, text-style) are
    instructions to svgdx: whatever element carried them (a <text> element included), none of them is in the output"""
    left = sorted({f"{o.tag(e)}@{a}" for e in o.all for a in e.attrib if (a == "text" or a.startswith("text-")) and a not in SVG_TEXT_ATTRS})
    return Obl("svgdx-text-attributes-consumed", FAIL if left else PASS, ground=True, note=",".join(left))


def build_text_own_transform(td, wrong):
    """a <text> element's own transform stays on the generated <text>; its anchor is the untransformed position"""
    form, xf = td["form"], td["xf"]
    vars_ = [(4, *P), (7, *P)]
    doc = {"attr": f'<svg><text xy="[[0]] [[1]]" transform="{xf}" text="label"/></svg>', "content": f'<svg><text xy="[[0]] [[1]]" transform="{xf}">label</text></svg>',
           "multiline": f'<svg><text xy="[[0]] [[1]]" transform="{xf}" text="one\ntwo"/></svg>', "loc": f'<svg><text xy="[[0]] [[1]]" text-loc="br" transform="{xf}" text="label"/></svg>'}[form]

    def check(r):
        if r.status != "ok":
            return [Obl("transform-ok", FAIL, ground=True, note=r.docs[0]["msg"][:200])]
        o = Out(r.output)
        ts = o.by_tag("text")
        if len(ts) != 1:
            return [Obl("one-text-element", FAIL, ground=True, note=str(len(ts)))]
        t = ts[0]
        want = xf + ("x" if wrong else "")
        return [Obl("own-transform-kept", PASS if t.get("transform") == want else FAIL, ground=True, note=str(t.get("transform"))),
                Obl("text.x", ne(o.num(t, "x", None), "v0")), Obl("text.y", ne(o.num(t, "y", None), "v1"))]
    return Template(f"text-own-transform/{form}/{xf}", doc, vars_, check, family="text-own-transform", role="C19/text-own-transform", cap=4)


def twins(tier, seed):
    return [dict(fam="place", kind="rect", loc="tl", mode="default", off="sym", dxy="dx+dy", vert=False, lines=1, carrier="attr"),
            dict(fam="multiline", kind="line", loc="b", mode="default", off="default", dxy="none", vert=False, lines=3, carrier="attr", lsp="sym"),
            dict(fam="attrs", kind="rect", pa="font-size=3", vert=False, lines=1), dict(fam="textref", ref="@r:3", gap="", mode="default")]


def build(td, wrong=False):
    if td["fam"] == "attrs":
        return build_attrs(td, wrong)
    if td["fam"] == "textref":
        return build_textref(td, wrong)
    if td["fam"] == "textref-explicit":
        return build_textref_explicit(td, wrong)
    if td["fam"] == "textcontent-coords":
        return build_textcontent_coords(td, wrong)
    if td["fam"] == "text-own-transform":
        return build_text_own_transform(td, wrong)
    kind = td["kind"]
    sm, vars_, vbox, visible = shape_markup(kind, 0)
    vars_ = list(vars_)
    extra = ""
    loc = td["loc"]
    ko = None
    if loc.endswith(":o"):
        ko = len(vars_)
        vars_.append((3, *O))
        extra += f' text-loc="{loc[0]}:[[{ko}]]"'
    elif loc != "c" or td["fam"] != "place":
        extra += f' text-loc="{loc}"'
    classes = []
    if td["mode"] == "inside":
        classes.append("d-text-inside")
    elif td["mode"] == "outside":
        classes.append("d-text-outside")
    if td["vert"]:
        classes.append("d-text-vertical")
    classes.append("d-red")
    extra += f' class="{" ".join(classes)}"'
    off = "1.0"
    if td["off"] == "sym":
        kf = len(vars_)
        vars_.append((2, *O))
        extra += f' text-offset="[[{kf}]]"'
        off = f"v{kf}"
    dx = dy = "0.0"
    if td["dxy"] == "dx+dy":
        kd = len(vars_)
        vars_ += [(3, *D), (-2, *D)]
        extra += f' text-dx="[[{kd}]]" text-dy="[[{kd + 1}]]"'
        dx, dy = f"v{kd}", f"v{kd + 1}"
    elif td["dxy"] == "dxy":
        kd = len(vars_)
        vars_ += [(3, *D), (-2, *D)]
        extra += f' text-dxy="[[{kd}]] [[{kd + 1}]]"'
        dx, dy = f"v{kd}", f"v{kd + 1}"
    elif td["dxy"].startswith("dxy+"):
        # a specific text-dx / text-dy takes precedence over the corresponding component of text-dxy
        kd = len(vars_)
        vars_ += [(3, *D), (-2, *D), (5, *D), (-6, *D)]
        extra += f' text-dxy="[[{kd}]] [[{kd + 1}]]"'
        dx, dy = f"v{kd}", f"v{kd + 1}"
        if "+dx" in td["dxy"]:
            extra += f' text-dx="[[{kd + 2}]]"'
            dx = f"v{kd + 2}"
        if "+dy" in td["dxy"]:
            extra += f' text-dy="[[{kd + 3}]]"'
            dy = f"v{kd + 3}"
    lsp = num(Fraction(105, 100))
    lsp_sym = False
    if td.get("lsp") == "sym":
        kl = len(vars_)
        vars_.append((1, *LSP))
        extra += f' text-lsp="[[{kl}]]"'
        lsp = f"v{kl}"
        lsp_sym = True
    n = td["lines"]
    words = ["one", "two", "three"][:n]
    if td.get("tstyle"):
        extra += ' text-style="fill:blue"'
    if td["fam"] == "blanklines":
        raw = {"trail2": "one\n\n", "lead": "\none", "mid": "one\n\ntwo", "trail3": "one\ntwo\n\n\n", "only-nl": "one\n", "crlf": "one\r\ntwo"}[td["form"]]
        # a line terminator ends a line; it does not start another one after the last
        words = raw.replace("\r\n", "\n").split("\n")
        if raw.endswith("\n"):
            words = words[:-1]
        n = len(words)
    tail = ""
    if td.get("held"):
        extra += ' data-w="{{#zz~w}}"'
        tail = '<rect id="zz" xy="300 300" wh="2"/>'
    if td["fam"] == "blanklines":
        if td["carrier"] == "attr":
            txt = raw.replace("\r", "&#13;").replace("\n", "\\n") if td["form"] != "crlf" else "one\\ntwo"
            doc = "<svg>" + sm.replace("{T}", f'{extra} text="{txt}"/>') + "</svg>"
        else:
            doc = "<svg>" + sm.replace("{T}", f"{extra}>" + raw + f"</{kind}>") + "</svg>"
    elif td["carrier"] == "attr":
        txt = "\\n".join(words)
        doc = "<svg>" + sm.replace("{T}", f'{extra} text="{txt}"/>') + tail + "</svg>"
    else:
        doc = "<svg>" + sm.replace("{T}", f"{extra}>" + "\n".join(words) + f"</{kind}>") + "</svg>"
    outside = td["mode"] == "outside" or (td["mode"] == "default" and kind in ("line", "point", "text"))
    vert = td["vert"]
    edge = loc.split(":")[0]
    top, bottom = edge in ("tl", "t", "tr"), edge in ("bl", "b", "br")
    left, right = edge in ("tl", "l", "bl"), edge in ("tr", "r", "br")
    sgn_in = "0.0"

    def check(r):
        if r.status != "ok":
            return [Obl("transform-ok", FAIL, ground=True, note=r.docs[0]["msg"][:200])]
        o = Out(r.output)
        texts = o.by_tag("text")
        if len(texts) != 1:
            return [Obl("one-text-element", FAIL, ground=True, note=f"{len(texts)} text elements")]
        t = texts[0]
        obls = []
        if visible:
            sh = o.by_id("s")
            if sh is None or o.tag(sh) != kind:
                return [Obl("shape-emitted", FAIL, ground=True)]
            bx = G.elem_box(o, sh)
            bad = [a for a in sh.attrib if a.startswith("text")] + [c for c in (sh.get("class") or "").split() if c.startswith("d-text")]
            obls.append(Obl("text-attributes-moved-off-the-shape", FAIL if bad else PASS, ground=True, note=",".join(bad)))
            obls.append(Obl("shape-keeps-other-classes", PASS if "d-red" in (sh.get("class") or "").split() else FAIL, ground=True))
            # shape geometry unchanged
            vb = vbox()
            obls += [Obl("shape-x1", ne(bx.x1, vb.x1)), Obl("shape-y1", ne(bx.y1, vb.y1)), Obl("shape-x2", ne(bx.x2, vb.x2)), Obl("shape-y2", ne(bx.y2, vb.y2))]
        else:
            bx = vbox()
            obls.append(Obl("phantom-shape-not-rendered", PASS if (kind == "text" or not o.by_tag(kind)) else FAIL, ground=True))
        # anchor
        if ":" in loc:
            e, ov = loc.split(":")
            ax, ay = bx.edge(e, f"v{ko}") if ov == "o" else bx.edge(e, Fraction(int(ov[:-1]), 100), pct=True)
        else:
            ax, ay = bx.loc(loc)
        o_eff = neg(off) if wrong else off
        ex, ey = ax, ay
        if top:
            ey = minus(ey, o_eff) if outside else plus(ey, o_eff)
        if bottom:
            ey = plus(ey, o_eff) if outside else minus(ey, o_eff)
        if left:
            ex = minus(ex, o_eff) if outside else plus(ex, o_eff)
        if right:
            ex = plus(ex, o_eff) if outside else minus(ex, o_eff)
        ex, ey = plus(ex, dx), plus(ey, dy)
        obls += [Obl("text.x", ne(o.num(t, "x", None), ex)), Obl("text.y", ne(o.num(t, "y", None), ey))]
        obls.append(svgdx_text_attrs_consumed(o))
        # classes
        want = {"d-text", "d-red"}
        suffix = "-vertical" if vert else ""
        if top:
            want.add(("d-text-bottom" if outside else "d-text-top") + suffix)
        if bottom:
            want.add(("d-text-top" if outside else "d-text-bottom") + suffix)
        if left:
            want.add(("d-text-right" if outside else "d-text-left") + suffix)
        if right:
            want.add(("d-text-left" if outside else "d-text-right") + suffix)
        got = set((t.get("class") or "").split())
        if vert:
            want.add("d-text-vertical")
        got_cmp = {c for c in got if c not in ("s",)}
        obls.append(Obl("alignment-classes", PASS if got_cmp == want else FAIL, ground=True, note=f"{sorted(got_cmp)} expected {sorted(want)}"))
        # lines
        spans = [c for c in o.children(t) if o.tag(c) == "tspan"]
        if td.get("tstyle"):
            obls.append(Obl("text-style-becomes-style-of-the-text", PASS if t.get("style") == "fill:blue" else FAIL, ground=True, note=str(t.get("style"))))
        if n == 1:
            obls.append(Obl("single-line-no-tspans", PASS if not spans and (t.text or "").strip() == words[0] else FAIL, ground=True, note=repr(t.text)))
            return obls
        if len(spans) != n:
            obls.append(Obl("one-tspan-per-line", FAIL, ground=True, note=f"{len(spans)} tspans for {n} lines"))
            return obls
        order = list(reversed(words)) if vert else words
        got_lines = [(s.text or "").replace("\u200b", "") for s in spans]
        obls.append(Obl("tspan-text-in-order", PASS if got_lines == order else FAIL, ground=True, note=str(got_lines)))
        # first-line offset rule
        if not vert:
            grow = "down" if ((not outside and top) or (outside and bottom)) else "up" if ((not outside and bottom) or (outside and top)) else "mid"
        else:
            grow = "down" if ((not outside and left) or (outside and right)) else "up" if ((not outside and right) or (outside and left)) else "mid"
        first = {"down": "0.0", "up": neg(mul(num(n - 1), lsp)), "mid": neg(mul(num(Fraction(n - 1, 2)), lsp))}[grow]
        dattr = "dx" if vert else "dy"
        fixed = "y" if vert else "x"
        for i, s in enumerate(spans):
            v = s.get(dattr)
            m = re.fullmatch(r"(-?(?:8888\d{6}\.5|\d+(?:\.\d+)?))em", v or "")
            if not m:
                obls.append(Obl(f"tspan{i}.{dattr}-in-em", FAIL, ground=True, note=str(v)))
                continue
            gv = o.tok(m.group(1))
            expv = first if i == 0 else lsp
            if lsp_sym or term_refs(gv):
                obls.append(Obl(f"tspan{i}.{dattr}", ne(gv, expv)))
            else:
                # concrete line spacing: compare up to the 3-decimal rendering
                obls.append(Obl(f"tspan{i}.{dattr}", not_(near(gv, expv, Fraction(6, 10000))), ground=True))
            obls.append(Obl(f"tspan{i}.{fixed}", ne(o.num(s, fixed, None), ex if fixed == "x" else ey)))
        return obls
    name = f"{td['fam']}/{kind}/{loc}/{td['mode']}/{td['off']}/{td['dxy']}/{'v' if vert else 'h'}/{n}/{td['carrier']}/{td.get('lsp', '')}"
    return Template(name, doc, vars_, check, family=td["fam"], role=f"C19/{td['fam']}/{kind}", cap=8)
