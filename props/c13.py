"""C13 Connectors start and end on the referenced elements (DESIGN.md §5, Appendix A)."""
import itertools, random
from fractions import Fraction
from vlib.engine import *  # noqa
from vlib import geom as G
from vlib.harness import sample_quota

PROP = "C13"
LEVEL = "model_checking"
ANCHOR_PREFIXES = ["connector::", "element::SvgElement::transmute", "element::SvgElement::is_connector", "position::Length::calc_offset", "position::parse_el_loc", "position::BoundingBox::locspec"]
BOUNDS = ("two boxes (rect/circle) with symbolic position (integers in [-64,64]) and size (integers in [0,32]); endpoint specs {#el, #el@loc (9), #el@edge:offset (symbolic either sign / 25% / 50% / 150%, all four edges), "
          "literal point (symbolic)} on either end; kinds {line straight, edge-type h, edge-type v, corner polyline with corner-offset absent / 25% / 125% / absolute symbolic of either sign}; "
          "paths: those reached from 12 seeded arrangements (9 sectors, overlapping, touching, identical) and up to 3 searched near-tie arrangements (the two nearest candidate pairs within one unit of squared distance) plus solver-driven negation for templates without a closest-location search; "
          "every reached path is decided for all values (nonlinear real arithmetic over the hull of the domain); connectors written before / between their ends and with a relatively placed second box; stray connector attributes on non-corner connectors; edge-type on a <polyline>")
ASSUMPTIONS = ["candidate locations: edge mid-points t r b l, plus the four corners for straight lines; l r only for edge-type h, t b only for edge-type v (property text + docs connectors.md)",
               "ties between equally distant candidates may resolve either way", "corner-offset: percent of the span from start to end (default 50%), absolute from the start towards the end; same-direction (U) connectors take an absolute offset (default 3) beyond the outermost end point (docs)"]

POS = (-64, 64, 0)
SZ = (0, 32, 0)
OFF = (-16, 16, 0)
CAND8 = ["t", "b", "l", "r", "tl", "bl", "tr", "br"]
CAND4 = ["t", "r", "b", "l"]
SEEDS_B = [(-50, -40), (2, -40), (50, -40), (-50, 1), (50, 1), (-50, 40), (2, 40), (50, 40), (5, 3), (0, 0), (20, 0), (0, 10)]


def boxes_markup(kind_a="rect", kind_b="rect"):     # (build() splits the result at the second '<' and rewrites B's xy)
    """A: vars 0-3, B: vars 4-7"""
    def one(kind, id_, k):
        if kind == "rect":
            return f'<rect id="{id_}" xy="[[{k}]] [[{k + 1}]]" wh="[[{k + 2}]] [[{k + 3}]]"/>'
        if kind == "use":
            # an instance of a rect template: the same box, reached through <use>
            return f'<use id="{id_}" href="#ut{id_}" x="[[{k}]]" y="[[{k + 1}]]"/><defs><rect id="ut{id_}" wh="[[{k + 2}]] [[{k + 3}]]"/></defs>'
        return f'<ellipse id="{id_}" xy="[[{k}]] [[{k + 1}]]" wh="[[{k + 2}]] [[{k + 3}]]"/>'
    vars_ = [(0, *POS), (0, *POS), (20, *SZ), (10, *SZ), (50, *POS), (1, *POS), (12, *SZ), (8, *SZ)]
    return one(kind_a, "a", 0) + one(kind_b, "b", 4), vars_


def seeds(vars_):
    out = []
    for (bx, by) in SEEDS_B:
        v = [x[0] for x in vars_]
        v[4], v[5] = bx, by
        if (bx, by) == (0, 0):
            v[6], v[7] = v[2], v[3]
        out.append(v)
    return out


ENDSPECS = ["plain", "@tl", "@t", "@tr", "@r", "@br", "@b", "@bl", "@l", "@c", "@t:o", "@r:o", "@b:25%", "@l:150%", "pt"]


def templates(tier, seed):
    tds = []
    for s in ENDSPECS:
        for e in ENDSPECS:
            tds.append(dict(fam="straight", s=s, e=e, ka="rect", kb="rect"))
    for s, e in (("plain", "plain"), ("plain", "@c"), ("@br", "plain")):
        tds.append(dict(fam="straight", s=s, e=e, ka="ellipse", kb="rect"))
        tds.append(dict(fam="straight", s=s, e=e, ka="use", kb="rect"))
    for s, e in (("plain", "plain"), ("@r", "@l"), ("@b", "plain")):
        tds.append(dict(fam="corner", s=s, e=e, off="none", ka="use", kb="use"))
    for et in ("h", "v", "horizontal", "vertical"):
        for s, e in (("plain", "plain"),):
            tds.append(dict(fam="hv", et=et, s=s, e=e))
            # the connected elements may be instances (<use>)
            tds.append(dict(fam="hv", et=et, s=s, e=e, ka="use", kb="use"))
            tds.append(dict(fam="hv", et=et, s=s, e=e, ka="rect", kb="use"))
            # the edge type decides the connector kind, whatever the element is called
            tds.append(dict(fam="hv", et=et, s=s, e=e, tag="polyline"))
    CS = ["plain", "@t", "@r", "@b", "@l", "@t:o", "@r:o", "@b:o", "@l:o", "@t:25%", "@r:25%", "@b:150%", "@l:50%"]
    for s in CS:
        for e in CS:
            for off in ("none", "25%", "abs", "absneg", "125%"):
                if (":" in s or ":" in e) and off in ("125%", "absneg") and s != "plain" and e != "plain" and (s[1] != e[1]):
                    continue
                tds.append(dict(fam="corner", s=s, e=e, off=off))
    for s, e in (("@tl", "@b"), ("plain", "@c"), ("pt", "plain"), ("@r", "pt"), ("plain", "pt"), ("pt", "@l"), ("pt", "pt"), ("@c", "plain"), ("plain", "@br")):
        for off in ("none", "25%"):
            tds.append(dict(fam="corner", s=s, e=e, off=off, keep=True))
    # connector attributes that have no effect for the connector kind are connector attributes all the same (never in the output)
    stray = []
    for i, t in enumerate(tds):
        if t["fam"] in ("straight", "hv") and (t["fam"] == "hv" or i % 9 == 0):
            for st in ("corner-offset-abs", "corner-offset-pct"):
                stray.append(dict(t, stray=st))
    # the same connectors written before / between the elements they connect (the connector has to wait for its ends), and
    # with the second box placed relative to the first
    ordered = []
    for i, t in enumerate(tds):
        if t["fam"] == "hv" or i % 5 == 0:
            for order in ("kab", "akb", "kba", "rel-b", "rel-b-kab"):
                ordered.append(dict(t, order=order))
    if tier == "quick":
        tds = [t for t in tds if t.get("keep")] + sample_quota([t for t in tds if not t.get("keep")], lambda t: (t["fam"],), {"straight": 120, "hv": 16, "corner": 260}, seed)
        ordered = sample_quota(ordered, lambda t: (t["fam"], t["order"]), {"straight": 12, "hv": 2, "corner": 16}, seed)
    if tier == "quick":
        stray = sample_quota(stray, lambda t: (t["fam"], t["stray"]), {"straight": 10, "hv": 4}, seed)
    return tds + ordered + stray


def twins(tier, seed):
    # (wrong-oracle twins with two automatic ends make the solver search a 64-pair nonlinear space for a model: minutes; the
    # sensitivity of the minimality obligation is exercised with one automatic end instead)
    return [dict(fam="straight", s="@r", e="plain", ka="rect", kb="rect"), dict(fam="hv", et="h", s="plain", e="plain"), dict(fam="corner", s="@r", e="@l", off="25%"),
            dict(fam="corner", s="@t", e="plain", off="none")]


def endspec(spec, ref, vars_):
    """returns (attribute text, kind, info)  kind in plain/loc/edge/pt"""
    if spec == "plain":
        return ref, "plain", None
    if spec == "pt":
        k = len(vars_)
        vars_ += [(-30, *POS), (35, *POS)]
        return f"[[{k}]] [[{k + 1}]]", "pt", (f"v{k}", f"v{k + 1}")
    loc = spec[1:]
    if ":" in loc:
        e, o = loc.split(":")
        if o == "o":
            k = len(vars_)
            vars_.append((3, *OFF))
            return f"{ref}@{e}:[[{k}]]", "edge", (e, f"v{k}", False)
        return f"{ref}@{e}:{o}", "edge", (e, Fraction(int(o[:-1]), 100), True)
    return f"{ref}@{loc}", "loc", loc


def spec_point(box, kind, info):
    if kind == "loc":
        return box.loc(info)
    if kind == "edge":
        return box.edge(info[0], info[1], pct=info[2])
    if kind == "pt":
        return info
    return None


def spec_dir(kind, info):
    """edge the endpoint lies on (for corner routing), or None"""
    if kind == "loc" and info in CAND4:
        return info
    if kind == "edge":
        return info[0]
    return None


def d2(p, q):
    dx, dy = minus(p[0], q[0]), minus(p[1], q[1])
    return plus(mul(dx, dx), mul(dy, dy))


def pt_eq(p, q):
    return and_(eq(p[0], q[0]), eq(p[1], q[1]))


def tie_seeds(vars_, sk, si, ek, ei, cands, n=3):
    """valuations in which the two nearest candidate pairs are closer to each other than one unit of squared distance (and
    lie within the same integer): the comparison that picks the end points has to be exact there.  Deterministic search."""
    import math
    if not (sk == "plain" or ek == "plain") or any(k == "edge" for k in (sk, ek)):
        return []

    def loc(b, l):
        x, y, w, h = b
        return {"t": (x + w / 2, y), "b": (x + w / 2, y + h), "l": (x, y + h / 2), "r": (x + w, y + h / 2), "tl": (x, y), "tr": (x + w, y), "bl": (x, y + h), "br": (x + w, y + h), "c": (x + w / 2, y + h / 2)}[l]
    rng = random.Random(f"{sk}{si}{ek}{ei}{len(cands)}")
    out = []
    for _ in range(20000):
        v = [x[0] for x in vars_]
        v[0], v[1], v[2], v[3] = rng.randint(-8, 8), rng.randint(-8, 8), rng.randint(1, 9), rng.randint(1, 9)
        v[4], v[5], v[6], v[7] = rng.randint(-8, 8), rng.randint(-8, 8), rng.randint(1, 9), rng.randint(1, 9)
        for k in range(8, len(v)):
            v[k] = rng.randint(-8, 8)
        A, B = v[0:4], v[4:8]
        pts = []
        nxt = 8
        for kind, info, box in ((sk, si, A), (ek, ei, B)):
            if kind == "plain":
                pts.append([loc(box, l) for l in cands])
            elif kind == "loc":
                pts.append([loc(box, info)])
            else:
                pts.append([(v[nxt], v[nxt + 1])])
                nxt += 2
        d = sorted((p[0] - q[0]) ** 2 + (p[1] - q[1]) ** 2 for p in pts[0] for q in pts[1])
        if len(d) > 1 and d[0] < d[1] and math.floor(d[0]) == math.floor(d[1]):
            out.append(v)
            if len(out) >= n:
                break
    return out


def build(td, wrong=False):
    fam = td["fam"]
    bm, vars_ = boxes_markup(td.get("ka", "rect"), td.get("kb", "rect"))
    vars_ = list(vars_)
    stxt, sk, si = endspec(td["s"], "#a", vars_)
    etxt, ek, ei = endspec(td["e"], "#b", vars_)
    extra = ""
    offinfo = None
    if fam == "hv":
        extra = f' edge-type="{td["et"]}"'
    if fam == "corner" and td["off"] != "none":
        if td["off"] in ("abs", "absneg"):
            k = len(vars_)
            vars_.append((4, 0, 16, 0) if td["off"] == "abs" else (-4, -16, 0, 0))
            extra = f' corner-offset="[[{k}]]"'
            offinfo = ("abs", f"v{k}")
        else:
            extra = f' corner-offset="{td["off"]}"'
            offinfo = ("pct", Fraction(int(td["off"][:-1]), 100))
    if td.get("stray"):
        extra += ' corner-offset="3"' if td["stray"] == "corner-offset-abs" else ' corner-offset="25%"'
    tag = "polyline" if (fam == "corner" or td.get("tag") == "polyline") else "line"
    kel = f'<{tag} id="k" start="{stxt}" end="{etxt}"{extra}/>'
    order = td.get("order", "abk")
    if order == "abk":
        doc = f"<svg>{bm}{kel}</svg>"
    else:
        i = bm.index('<', 1)
        am, bmk = bm[:i], bm[i:]
        if order.startswith("rel-b"):
            # B placed at the same spot, but written relative to A's top-left corner (numerically the same box)
            bmk = bmk.replace('xy="[[4]] [[5]]"', 'xy="#a@tl {{[[4]] - [[0]]}} {{[[5]] - [[1]]}}"')
            order = order[6:] or "abk"
        doc = "<svg>" + "".join({"a": am, "b": bmk, "k": kel}[c] for c in order) + "</svg>"
    cands = {"straight": CAND8, "hv": (["l", "r"] if td.get("et", "h")[0] == "h" else ["t", "b"]), "corner": CAND4}[fam]
    needs_search = sk == "plain" or ek == "plain"
    SH = "1.0" if wrong else "0.0"

    def check(r):
        if r.status != "ok":
            # same-direction connectors given a percentage offset are rejected by design (docs: absolute value required)
            if fam == "corner" and offinfo and offinfo[0] == "pct" and "absolute offset" in r.docs[0]["msg"]:
                return [Obl("u-shape-needs-absolute-offset", PASS, ground=True)]
            return [Obl("transform-ok", FAIL, ground=True, note=r.docs[0]["msg"][:200])]
        o = Out(r.output)
        k = o.by_id("k")
        if k is None:
            return [Obl("connector-present", FAIL, ground=True)]
        obls = []
        bad = [a for a in ("start", "end", "edge-type", "corner-offset") if k.get(a) is not None]
        obls.append(Obl("connector-attrs-removed", FAIL if bad else PASS, ground=True, note=",".join(bad)))
        def box_of(id_):
            el = o.by_id(id_)
            if o.tag(el) == "use":
                tb = G.elem_box(o, o.by_id(el.get("href").lstrip("#")))
                return tb.translate(o.num(el, "x"), o.num(el, "y"))
            return G.elem_box(o, el)
        A, B = box_of("a"), box_of("b")
        ktag = o.tag(k)
        if ktag == "line":
            pts = [(o.num(k, "x1", None), o.num(k, "y1", None)), (o.num(k, "x2", None), o.num(k, "y2", None))]
        else:
            n = o.nums(k, "points")
            pts = list(zip(n[0::2], n[1::2]))
        p0, pk = pts[0], pts[-1]
        p0 = (plus(p0[0], SH), p0[1]) if wrong else p0
        sp, ep = spec_point(A, sk, si), spec_point(B, ek, ei)
        if fam == "hv":
            horiz = td["et"][0] == "h"
            mid = half(plus(rmax(A.y1, B.y1), rmin(A.y2, B.y2))) if horiz else half(plus(rmax(A.x1, B.x1), rmin(A.x2, B.x2)))
            ax = 1 if horiz else 0     # the shared coordinate index
            obls.append(Obl("axis-parallel", ne(p0[ax], pk[ax])))
            obls.append(Obl("through-middle-of-overlap", ne(p0[ax], mid)))
            # the free coordinate of each end is one of the two candidate edges, with minimal mid-point distance
            sc = [(l, A.loc(l)) for l in cands]
            ec = [(l, B.loc(l)) for l in cands]
            disj = []
            for (la, pa) in sc:
                for (lb, pb) in ec:
                    minimal = and_(*[le(d2(pa, pb), d2(qa, qb)) for (_, qa) in sc for (_, qb) in ec])
                    disj.append(and_(eq(p0[1 - ax], pa[1 - ax]), eq(pk[1 - ax], pb[1 - ax]), minimal))
            obls.append(Obl("ends-on-closest-facing-edges", not_(or_(*disj)), mode="real"))
            return obls
        # ---- end points
        if sp is not None:
            obls += [Obl("start.x", ne(p0[0], sp[0])), Obl("start.y", ne(p0[1], sp[1]))]
        else:
            obls.append(Obl("start-is-candidate", not_(or_(*[pt_eq(p0, A.loc(l)) for l in cands]))))
        if ep is not None:
            obls += [Obl("end.x", ne(pk[0], ep[0])), Obl("end.y", ne(pk[1], ep[1]))]
        else:
            obls.append(Obl("end-is-candidate", not_(or_(*[pt_eq(pk, B.loc(l)) for l in cands]))))
        if needs_search:
            sc = [sp] if sp is not None else [A.loc(l) for l in cands]
            ec = [ep] if ep is not None else [B.loc(l) for l in cands]
            dd = d2(p0, pk)
            obls.append(Obl("minimal-distance", or_(*[lt(d2(pa, pb), dd) for pa in sc for pb in ec]), mode="real"))
        if fam == "straight":
            obls.append(Obl("straight-is-line", PASS if ktag == "line" else FAIL, ground=True))
            return obls
        # ---- corner polylines
        sd, ed = spec_dir(sk, si), spec_dir(ek, ei)
        if (sk in ("loc", "pt") and sd is None) or (ek in ("loc", "pt") and ed is None):
            # an end without an edge (corner/centre location, literal point): no routing demanded beyond the end points
            return obls
        for i in range(len(pts) - 1):
            a, b = pts[i], pts[i + 1]
            obls.append(Obl(f"segment{i}-axis-parallel", and_(ne(a[0], b[0]), ne(a[1], b[1]))))
        if len(pts) < 3:
            obls.append(Obl("corner-has-bend", FAIL, ground=True, note=f"{len(pts)} points"))
            return obls
        # perpendicular departure / arrival: on a left/right edge the adjoining segment is horizontal, on top/bottom vertical
        def perp(edge_names, box, p, q):
            alts = []
            for l in edge_names:
                onedge = pt_eq(p, box.loc(l)) if True else "true"
                direction = eq(p[1], q[1]) if l in ("l", "r") else eq(p[0], q[0])
                alts.append(and_(onedge, direction))
            return or_(*alts)
        if sd is not None:
            obls.append(Obl("first-segment-perpendicular", not_(eq(p0[1], pts[1][1]) if sd in ("l", "r") else eq(p0[0], pts[1][0]))))
        else:
            obls.append(Obl("first-segment-perpendicular", not_(perp(CAND4, A, p0, pts[1]))))
        if ed is not None:
            obls.append(Obl("last-segment-perpendicular", not_(eq(pk[1], pts[-2][1]) if ed in ("l", "r") else eq(pk[0], pts[-2][0]))))
        else:
            obls.append(Obl("last-segment-perpendicular", not_(perp(CAND4, B, pk, pts[-2]))))
        # jog position for named, opposite or same-direction edges (docs)
        if sd is not None and ed is not None and len(pts) == 4:
            opp = {("r", "l"), ("l", "r"), ("t", "b"), ("b", "t")}
            if (sd, ed) in opp:
                ax = 0 if sd in ("l", "r") else 1
                s0, e0 = p0[ax], pk[ax]
                if offinfo is None:
                    jog = plus(s0, mul("0.5", minus(e0, s0)))
                elif offinfo[0] == "pct":
                    jog = plus(s0, mul(num(offinfo[1]), minus(e0, s0)))
                else:
                    ov = offinfo[1]
                    fwd = ite(lt(e0, s0), minus(s0, ov), plus(s0, ov))          # ov >= 0: measured from the start, towards the end
                    back = ite(lt(e0, s0), minus(e0, ov), plus(e0, ov))         # ov < 0: measured back from the end
                    jog = ite(ge(ov, "0.0"), fwd, back)
                obls.append(Obl("jog-at-corner-offset", or_(ne(pts[1][ax], jog), ne(pts[2][ax], jog))))
            elif sd == ed and (offinfo is None or (offinfo[0] == "abs" and td["off"] == "abs")):
                ax = 0 if sd in ("l", "r") else 1
                ov = "3.0" if offinfo is None else offinfo[1]
                outer = rmin(p0[ax], pk[ax]) if sd in ("l", "t") else rmax(p0[ax], pk[ax])
                jog = minus(outer, ov) if sd in ("l", "t") else plus(outer, ov)
                obls.append(Obl("u-jog-beyond-outermost-end", or_(ne(pts[1][ax], jog), ne(pts[2][ax], jog))))
        return obls
    name = f"{fam}/{td.get('s')}/{td.get('e')}/{td.get('et', '')}{td.get('off', '')}/{td.get('ka', '')}" + (f"/{td['order']}" if td.get("order") else "") + (f"/{td['stray']}" if td.get("stray") else "") + ("/polyline" if td.get("tag") == "polyline" else "")
    return Template(name, doc, vars_, check, family=fam, role=f"C13/{fam}", cap=40, seeds=seeds(vars_) + (tie_seeds(vars_, sk, si, ek, ei, cands) if td.get("order", "abk") == "abk" and not td.get("stray") else []), explore=not needs_search)
