"""C18 Reuse instantiates templates as if written out by hand (translation validation, DESIGN.md §5)."""
import itertools, random
from fractions import Fraction
from vlib.engine import *  # noqa
from vlib.twin import compare_outputs
from vlib.harness import sample_quota

PROP = "C18"
LEVEL = "translation_validation"
ANCHOR_PREFIXES = ["reuse::", "context::", "transform::", "position::Position", "element::SvgElement::resolve_position", "element::", "expression::eval_vars"]
BOUNDS = ("templates {rect, circle, ellipse at the origin; group of two shapes; symbol} in <specs>, parameterised by variables in geometry (symbolic) and in text/class (concrete strings); "
          "self-sufficient templates inline and in <defs> (before and after their use); self-sufficient group/symbol templates inline / in <defs> / in <specs> reused with an own transform (rotate, scale) and placed by x+y, x, cxy, x2+y2, xy with xy-loc; bindings to the empty string under a global variable, a group attribute or an outer instantiation of the same name; two-level nested instantiation; 1-3 instantiations with different symbolic bindings, optional id / class / style, placement by x+y, x, y, "
          "xy, cxy or none; values k/2 in [-64,64], sizes k/2 in [0,32]; seeded generated group / symbol templates (quick 80, thorough 1200) of 2-4 items (shapes, text, polyline, '^'-relative shapes, nested groups, classes, expressions, inner reuse, if, loop) with twins produced by textual substitution; reuse of the previous element; templates nested in groups inside <specs>; reuse chains, computed template ids, templates reading $id; line and text templates, two-valued and expression-valued compound attributes (open findings), group-template attribute defaults overridden by the reuse element, style on either / both sides, a template reusing itself under an <if> on a bound variable (depth 3)")
ASSUMPTIONS = ["the hand-written twin: target element with the reuse attributes substituted for $variables, the reuse element's id/style/classes, the target id added as class, placed at x/y "
               "(shape: top-left of its bounding box; group/symbol: transform=translate(x, y), symbol rendered as <g>)", "class attributes are compared as sets",
               "instance independence: the geometry terms of one instance mention no variable of another instance (checked on the normalised term DAG)"]

V = (-64, 64, 1)
S = (0, 32, 1)

SHAPES = {
    # name: (template markup using $w,$h, twin markup fn(pos_attrs, w, h, extra) )
    "rect": ('<rect id="t" wh="$w $h"/>', lambda pos, w, h, ex: f'<rect {pos} wh="{w} {h}"{ex}/>'),
    "circle": ('<circle id="t" r="$w"/>', lambda pos, w, h, ex: f'<circle {pos} r="{w}"{ex}/>'),
    "ellipse": ('<ellipse id="t" rxy="$w $h"/>', lambda pos, w, h, ex: f'<ellipse {pos} rxy="{w} {h}"{ex}/>'),
    "recttext": ('<rect id="t" wh="$w $h" text="$lab" class="d-$col"/>', None),
}
PLACE = ["xy-attrs", "x", "y", "none", "xy", "cxy"]


def inst_attrs(place, k0):
    """reuse-side attributes, twin-side position attributes, number of vars"""
    a, b = f"[[{k0}]]", f"[[{k0 + 1}]]"
    if place == "xy-attrs":
        return f' x="{a}" y="{b}"', f'xy="{a} {b}"', 2
    if place == "x":
        return f' x="{a}"', f'x="{a}"', 1
    if place == "y":
        return f' y="{a}"', f'y="{a}"', 1
    if place == "xy":
        return f' xy="{a} {b}"', f'xy="{a} {b}"', 2
    if place == "cxy":
        return f' cxy="{a} {b}"', f'cxy="{a} {b}"', 2
    return "", "", 0


def templates(tier, seed):
    tds = []
    for shape in ("rect", "circle", "ellipse"):
        for place in PLACE:
            for deco in ("plain", "id", "id+class+style"):
                for n in (1, 2, 3):
                    if n == 3 and deco != "id":
                        continue
                    tds.append(dict(fam="shape", shape=shape, place=place, deco=deco, n=n))
    for kind in ("group", "symbol"):
        for place in ("xy-attrs", "x", "y", "none"):
            for deco in ("plain", "id+class+style"):
                for n in (1, 2):
                    tds.append(dict(fam=kind, place=place, deco=deco, n=n))
    for where in ("inline-before", "inline-after", "defs-before", "defs-after"):
        for place in ("xy-attrs", "none", "x"):
            tds.append(dict(fam="selfsufficient", where=where, place=place))
    for place in ("xy-attrs", "none"):
        tds.append(dict(fam="textparam", place=place))
    for order in ("fwd-first", "fwd-second", "fwd-both"):
        for outer in ("var", "g-attr"):
            tds.append(dict(fam="retry-independence", order=order, outer=outer))
    # group templates that are complete in themselves (content size known when reused), wherever they live; the reuse element
    # carries its own transform and/or places the instance by something that needs the template's size
    for where in ("inline-before", "inline-after", "specs", "defs-before"):
        for place in ("xy-attrs", "x", "none", "cxy", "x2y2", "xy-loc-br"):
            for xf in ("none", "rotate", "scale"):
                for tag in ("g", "symbol"):
                    if tag == "symbol" and where.startswith("inline"):
                        continue
                    # placement that needs the template's size is asserted only where that size is known when the template is
                    # reused (template complete and rendered before its use); the property itself speaks of x/y only
                    if place in ("cxy", "x2y2", "xy-loc-br") and where not in ("inline-before", "defs-before"):
                        continue
                    tds.append(dict(fam="groupfixed", where=where, place=place, xf=xf, tag=tag))
    for how in ("global-var", "g-attr", "outer-reuse", "none"):
        for tgt in ("text", "class"):
            tds.append(dict(fam="empty-binding", how=how, tgt=tgt))
    for place in ("xy-attrs", "none"):
        for n in (1, 2):
            tds.append(dict(fam="nested", place=place, n=n))
    # seeded random group / symbol templates: bodies of 2-4 items over the element vocabulary, parameters in geometry, text and
    # class; the twin is produced by textual substitution of the bindings
    for gi in range(80 if tier == "quick" else 1200):
        tds.append(dict(fam="groupgen", gseed=gi + 5000 * seed))
    # chains of reuse (an instance that is itself a reuse), computed template ids, templates reading $id
    # templates placed through a transform (polygon, polyline, path), also at offsets that are zero or negative; classes of the
    # reuse element are evaluated where the reuse element stands (before its own bindings apply)
    for form in ("polygon", "polyline", "path", "class-rebinding", "class-rebinding-loop", "line", "text", "two-valued-binding", "one-valued-binding", "compound-expr-spaces", "compound-expr-nospaces",
                 "group-defaults-wh", "group-defaults-other", "group-defaults-none", "style-both", "style-both-group", "style-reuse-only", "style-template-only", "recursive-bounded"):
        tds.append(dict(fam="reuse-forms2", form=form))
    for form in ("chain-bind", "chain-bind3", "chain-bind-shape", "chain2", "chain2-group", "chain3", "computed-id", "computed-id-loop", "reads-id", "reads-id-class", "reads-id-shadow"):
        tds.append(dict(fam="reuse-forms", form=form))
    for form in ("prev-id", "prev-id-own-id", "prev-noid", "prev-then-ref"):
        for place in ("xy-attrs", "none"):
            tds.append(dict(fam="reuse-prev", form=form, place=place))
    for form in ("part-of-group", "part-of-symbol", "part-size-ref", "part-deep"):
        tds.append(dict(fam="specs-nested", form=form))
    tds.append(dict(fam="specs-hidden"))
    for how in ("global-reassigned", "reuse-attr-overrides", "both"):
        for where in ("inline", "specs"):
            tds.append(dict(fam="rebind", how=how, where=where))
    return tds


def twins(tier, seed):
    return [dict(fam="shape", shape="rect", place="xy-attrs", deco="id", n=2), dict(fam="group", place="xy-attrs", deco="plain", n=1)]


def deco_attrs(deco, i):
    if deco == "plain":
        return "", "", "t"
    if deco == "id":
        return f' id="i{i}"', f' id="i{i}"', "t"
    return f' id="i{i}" class="k{i} big" style="fill:red"', f' id="i{i}" style="fill:red"', f"k{i} big t"


def build(td, wrong=False):
    fam = td["fam"]
    vars_ = []
    inst_vars = []      # per instance: list of var indices

    def alloc(specs):
        k0 = len(vars_)
        vars_.extend(specs)
        return k0
    if fam == "specs-hidden":
        k0 = alloc([(3, *V), (4, *S)])
        d0 = f'<svg><specs><rect id="t" xy="[[{k0}]] 1" wh="[[{k0 + 1}]] 2"/><circle id="u" r="3"/></specs><rect xy="#t@br" wh="1"/></svg>'
        d1 = f'<svg><rect xy="{{{{[[{k0}]] + [[{k0 + 1}]]}}}} 3" wh="1"/></svg>'

        def check_h(r):
            if any(d["status"] != "ok" for d in r.docs):
                return [Obl("transform-ok", FAIL, ground=True, note=str([d["msg"][:80] for d in r.docs]))]
            return compare_outputs(Out(r.docs[0]["output"]), Out(r.docs[1]["output"]), wrong=wrong)
        return Template("specs-hidden", [d0, d1], vars_, check_h, family="specs", role="C18/specs", cap=4)
    reuse_doc, twin_doc = [], []
    assume = None
    if fam == "shape":
        tmpl, twinfn = SHAPES[td["shape"]]
        head = f"<specs>{tmpl}</specs>"
        for i in range(td["n"]):
            kw = alloc([(6 + 2 * i, *S), (4 + i, *S)])
            kp = len(vars_)
            ra, ta, nv = inst_attrs(td["place"], kp)
            alloc([(10 + 20 * i, *V), (-7 * i, *V)][:nv])
            inst_vars.append(list(range(kw, len(vars_))))
            dr, dt, cls = deco_attrs(td["deco"], i)
            reuse_doc.append(f'<reuse{dr} href="#t" w="[[{kw}]]" h="[[{kw + 1}]]"{ra}/>')
            twin_doc.append(twinfn(ta, f"[[{kw}]]", f"[[{kw + 1}]]", f'{dt} class="{cls}"'))
        d0 = "<svg>" + head + "".join(reuse_doc) + "</svg>"
        d1 = "<svg>" + "".join(twin_doc) + "</svg>"
    elif fam in ("group", "symbol"):
        inner = '<rect xy="0" wh="$w 3"/><circle cxy="$w $h" r="1"/>'
        tag = "g" if fam == "group" else "symbol"
        head = f'<specs><{tag} id="t">{inner}</{tag}></specs>'
        for i in range(td["n"]):
            kw = alloc([(6 + 2 * i, *S), (4 + i, *S)])
            kp = len(vars_)
            ra, _ta, nv = inst_attrs(td["place"], kp)
            alloc([(10 + 20 * i, *V), (-7 * i, *V)][:nv])
            inst_vars.append(list(range(kw, len(vars_))))
            dr, dt, cls = deco_attrs(td["deco"], i)
            reuse_doc.append(f'<reuse{dr} href="#t" w="[[{kw}]]" h="[[{kw + 1}]]"{ra}/>')
            tx = {"xy-attrs": f' transform="translate([[{kp}]], [[{kp + 1}]])"', "x": f' transform="translate([[{kp}]], 0)"', "y": f' transform="translate(0, [[{kp}]])"', "none": ""}[td["place"]]
            body = inner.replace("$w", f"[[{kw}]]").replace("$h", f"[[{kw + 1}]]")
            twin_doc.append(f'<g{dt}{tx} class="{cls}">{body}</g>')
        d0 = "<svg>" + head + "".join(reuse_doc) + "</svg>"
        d1 = "<svg>" + "".join(twin_doc) + "</svg>"
    elif fam == "selfsufficient":
        kw = alloc([(6, *S), (4, *S)])
        kp = len(vars_)
        ra, ta, nv = inst_attrs(td["place"], kp)
        alloc([(30, *V), (-9, *V)][:nv])
        tmpl = f'<rect id="t" wh="[[{kw}]] [[{kw + 1}]]"/>'
        use = f'<reuse id="i0" href="#t"{ra}/>'
        twin = f'<rect id="i0" {ta} wh="[[{kw}]] [[{kw + 1}]]" class="t"/>'
        if td["where"].startswith("defs"):
            tmpl_wrapped = f"<defs>{tmpl}</defs>"
        else:
            tmpl_wrapped = tmpl
        if td["where"].endswith("before"):
            d0, d1 = f"<svg>{tmpl_wrapped}{use}</svg>", f"<svg>{tmpl_wrapped}{twin}</svg>"
        else:
            d0, d1 = f"<svg>{use}{tmpl_wrapped}</svg>", f"<svg>{twin}{tmpl_wrapped}</svg>"
        inst_vars.append(list(range(kw, len(vars_))))
    elif fam == "rebind":
        # the template reads a global variable; the instance must be evaluated afresh from the template as written
        ka = alloc([(6, *S), (9, *S), (12, *S)])
        kp = alloc([(30, *V), (-9, *V)])
        tmpl = '<rect id="t" xy="0" wh="$q 2"/>'
        tw = f"<specs>{tmpl}</specs>" if td["where"] == "specs" else tmpl
        how = td["how"]
        mid = f'<var q="[[{ka + 1}]]"/>' if how in ("global-reassigned", "both") else ""
        rq = f' q="[[{ka + 2}]]"' if how in ("reuse-attr-overrides", "both") else ""
        final_q = f"[[{ka + 2}]]" if rq else (f"[[{ka + 1}]]" if mid else f"[[{ka}]]")
        d0 = f'<svg><var q="[[{ka}]]"/>{tw}{mid}<reuse href="#t"{rq} x="[[{kp}]]" y="[[{kp + 1}]]"/></svg>'
        tmpl_twin = "" if td["where"] == "specs" else f'<rect id="t" xy="0" wh="[[{ka}]] 2"/>'
        d1 = f'<svg>{tmpl_twin}<rect xy="[[{kp}]] [[{kp + 1}]]" wh="{final_q} 2" class="t"/></svg>'
        inst_vars.append(list(range(ka, len(vars_))))
    elif fam == "retry-independence":
        # an instantiation that has to be retried (its bindings reach a forward reference) must not leave anything behind
        # that a later instance, which relies on the enclosing value of the same name, could see
        ka = alloc([(6, *S), (9, *S), (4, *S), (7, *S)])     # outer s, binding s, early width, later width
        kp = alloc([(30, *V), (-9, *V), (10, *V), (20, *V)])
        tmpl = '<specs><rect id="t" wh="$s 2" data-w="{{$ref~w}}"/></specs>'
        early = f'<rect id="early" xy="0" wh="[[{ka + 2}]] 1"/>'
        later = f'<rect id="later" xy="50 50" wh="[[{ka + 3}]] 1"/>'
        refs = {"fwd-first": ("#later", "#early"), "fwd-second": ("#early", "#later"), "fwd-both": ("#later", "#later")}[td["order"]]
        wv = {"#later": f"[[{ka + 3}]]", "#early": f"[[{ka + 2}]]"}
        i0 = f'<reuse id="i0" href="#t" s="[[{ka + 1}]]" ref="{refs[0]}" x="[[{kp}]]" y="[[{kp + 1}]]"/>'
        i1 = f'<reuse id="i1" href="#t" ref="{refs[1]}" x="[[{kp + 2}]]" y="[[{kp + 3}]]"/>'
        t0 = f'<rect id="i0" xy="[[{kp}]] [[{kp + 1}]]" wh="[[{ka + 1}]] 2" data-w="{wv[refs[0]]}" class="t"/>'
        t1 = f'<rect id="i1" xy="[[{kp + 2}]] [[{kp + 3}]]" wh="[[{ka}]] 2" data-w="{wv[refs[1]]}" class="t"/>'
        if td["outer"] == "var":
            d0 = f'<svg>{tmpl}{early}<var s="[[{ka}]]"/>{i0}{i1}{later}</svg>'
            d1 = f'<svg>{early}{t0}{t1}{later}</svg>'
        else:
            d0 = f'<svg>{tmpl}{early}<g s="[[{ka}]]">{i0}{i1}</g>{later}</svg>'
            d1 = f'<svg>{early}<g s="[[{ka}]]">{t0}{t1}</g>{later}</svg>'
        inst_vars.append(list(range(ka, len(vars_))))
    elif fam == "groupfixed":
        # content: rect (0,0)-(W,3) and circle centre (W,H) r=1 => content box (0,0)-(W+1, max(3,H+1)); to keep the hand-written
        # translation simple the circle is replaced by a second rect so that the box is exactly (0,0)-(W,H)
        kw = alloc([(6, *S), (4, *S)])
        W, H = f"[[{kw}]]", f"[[{kw + 1}]]"
        body = f'<rect xy="0" wh="{W} 1"/><rect xy="0" wh="1 {H}"/>'
        tag = td["tag"]
        tmpl = f'<{tag} id="t">{body}</{tag}>'
        kp = alloc([(30, *V), (-9, *V)])
        a, b = f"[[{kp}]]", f"[[{kp + 1}]]"
        # the content box is (0,0)-(max(W,1), max(H,1)): sizes are kept >= 1 through the assumption below
        place = td["place"]
        xf = {"none": "", "rotate": "rotate(30)", "scale": "scale(2)"}[td["xf"]]
        va, vb_, vW, vH = f"v{kp}", f"v{kp + 1}", f"v{kw}", f"v{kw + 1}"
        half = lambda t: mul(num(Fraction(1, 2)), t)
        ra, tr = {"xy-attrs": (f' x="{a}" y="{b}"', (va, vb_)), "x": (f' x="{a}"', (va, "0.0")), "none": ("", None),
                  "cxy": (f' cxy="{a} {b}"', (minus(va, half(vW)), minus(vb_, half(vH)))),
                  "x2y2": (f' x2="{a}" y2="{b}"', (minus(va, vW), minus(vb_, vH))),
                  "xy-loc-br": (f' xy="{a} {b}" xy-loc="br"', (minus(va, vW), minus(vb_, vH)))}[place]

        rx = f' transform="{xf}"' if xf else ""
        use = f'<reuse id="i0" href="#t"{rx}{ra}/>'
        gf_expect = (xf, tr)
        twin = f'<g id="i0" class="t">{body}</g>'
        where = td["where"]
        wrapped = {"inline-before": tmpl, "inline-after": tmpl, "specs": f"<specs>{tmpl}</specs>", "defs-before": f"<defs>{tmpl}</defs>"}[where]
        twrapped = "" if where == "specs" else wrapped
        if where == "inline-after":
            d0, d1 = f"<svg>{use}{wrapped}</svg>", f"<svg>{twin}{twrapped}</svg>"
        else:
            d0, d1 = f"<svg>{wrapped}{use}</svg>", f"<svg>{twrapped}{twin}</svg>"
        inst_vars.append(list(range(kw, len(vars_))))
        assume = and_(ge(f"v{kw}", "1.0"), ge(f"v{kw + 1}", "1.0"))
    elif fam == "empty-binding":
        # a binding to the empty string is a binding: it hides any outer variable of the same name
        kw = alloc([(6, *S), (4, *S)])
        kp = alloc([(30, *V), (-9, *V)])
        if td["tgt"] == "text":
            tmpl = '<rect id="t" wh="$w $h" text="[${lab}]"/>'
            tw = lambda v: f'text="[{v}]"'
        else:
            tmpl = '<rect id="t" wh="$w $h" class="k${lab}z"/>'
            tw = lambda v: f'class="k{v}z t"'
        inst = lambda lab, i, y: f'<reuse href="#t" w="[[{kw}]]" h="[[{kw + 1}]]"{lab} x="[[{kp}]]" y="{y}"/>'
        twn = lambda v, y: f'<rect xy="[[{kp}]] {y}" wh="[[{kw}]] [[{kw + 1}]]" {tw(v)}{"" if td["tgt"] == "class" else " class=" + chr(34) + "t" + chr(34)}/>'
        how = td["how"]
        if how == "global-var":
            d0 = f'<svg><specs>{tmpl}</specs><var lab="OUT"/>' + inst(' lab=""', 0, f"[[{kp + 1}]]") + inst(' lab="in"', 1, "40") + inst("", 2, "80") + "</svg>"
            d1 = "<svg>" + twn("", f"[[{kp + 1}]]") + twn("in", "40") + twn("OUT", "80") + "</svg>"
        elif how == "g-attr":
            d0 = f'<svg><specs>{tmpl}</specs><g lab="OUT">' + inst(' lab=""', 0, f"[[{kp + 1}]]") + inst("", 1, "40") + "</g></svg>"
            d1 = '<svg><g lab="OUT">' + twn("", f"[[{kp + 1}]]") + twn("OUT", "40") + "</g></svg>"
        elif how == "outer-reuse":
            outer = '<g id="o"><reuse href="#t" w="$w" h="$h" lab="" x="0" y="0"/><reuse href="#t" w="$w" h="$h" x="0" y="50"/></g>'
            d0 = f'<svg><specs>{tmpl}{outer}</specs><reuse href="#o" w="[[{kw}]]" h="[[{kw + 1}]]" lab="OUT"/></svg>'
            t_in = lambda v, y: f'<rect xy="0 {y}" wh="[[{kw}]] [[{kw + 1}]]" {tw(v)}{"" if td["tgt"] == "class" else " class=" + chr(34) + "t" + chr(34)}/>'
            d1 = '<svg><g class="o">' + t_in("", "0") + t_in("OUT", "50") + "</g></svg>"
        else:
            d0 = f'<svg><specs>{tmpl}</specs>' + inst(' lab=""', 0, f"[[{kp + 1}]]") + "</svg>"
            d1 = "<svg>" + twn("", f"[[{kp + 1}]]") + "</svg>"
        inst_vars.append(list(range(kw, len(vars_))))
    elif fam == "nested":
        # a template that itself instantiates another template, with its own parameters passed down
        head = ('<specs><rect id="b" wh="$w 2"/>'
                '<g id="a"><reuse href="#b" w="$p" x="0" y="0"/><reuse href="#b" w="$q" x="0" y="5"/></g></specs>')
        for i in range(td["n"]):
            kw = alloc([(6 + 2 * i, *S), (4 + i, *S)])
            kp = len(vars_)
            ra, _ta, nv = inst_attrs(td["place"], kp)
            alloc([(10 + 20 * i, *V), (-7 * i, *V)][:nv])
            inst_vars.append(list(range(kw, len(vars_))))
            reuse_doc.append(f'<reuse id="n{i}" href="#a" p="[[{kw}]]" q="[[{kw + 1}]]"{ra}/>')
            tx = {"xy-attrs": f' transform="translate([[{kp}]], [[{kp + 1}]])"', "none": ""}[td["place"]]
            twin_doc.append(f'<g id="n{i}"{tx} class="a"><rect xy="0 0" wh="[[{kw}]] 2" class="b"/><rect xy="0 5" wh="[[{kw + 1}]] 2" class="b"/></g>')
        d0 = "<svg>" + head + "".join(reuse_doc) + "</svg>"
        d1 = "<svg>" + "".join(twin_doc) + "</svg>"
    elif fam == "groupgen":
        rnd = random.Random(8800 + td["gseed"])
        tag = rnd.choice(["g", "g", "symbol"])
        where = rnd.choice(["specs", "specs", "defs", "inline-before"]) if tag == "g" else rnd.choice(["specs", "defs"])

        def item(depth=0):
            k = rnd.choice(["rect", "rectp", "circle", "ellipse", "line", "text", "shapetext", "polyline", "rel", "g", "classy", "expr", "inner-reuse", "if", "loop"])
            if k == "g" and depth >= 1:
                k = "rect"
            return {"rect": lambda: '<rect xy="0 0" wh="$p $q"/>', "rectp": lambda: f'<rect xy="$p {rnd.randint(-5, 9)}" wh="3 $q"/>', "circle": lambda: '<circle cxy="$p $q" r="2"/>',
                    "ellipse": lambda: '<ellipse cxy="1 $q" rxy="$p 2"/>', "line": lambda: '<line xy1="0 0" xy2="$p $q"/>', "text": lambda: '<text xy="$p 1">$lab</text>',
                    "shapetext": lambda: '<rect xy="0 $q" wh="9 5" text="$lab"/>', "polyline": lambda: '<polyline points="0 0 $p 0 $p $q"/>', "rel": lambda: '<rect xy="^|h $q" wh="2"/>',
                    "g": lambda: f"<g>{item(1)}{item(1)}</g>", "classy": lambda: '<circle cxy="0 0" r="$p" class="k-$col big"/>', "expr": lambda: '<rect xy="{{$p + $q}} {{$p * 2}}" wh="1"/>',
                    "inner-reuse": lambda: '<reuse href="#leaf" w="$q" x="$p" y="0"/>', "if": lambda: '<if test="gt($p, 3)"><rect xy="0 0" wh="$q 1"/></if>',
                    "loop": lambda: '<loop count="2" loop-var="n"><rect xy="{{$n * 5}} $q" wh="$p 1"/></loop>'}[k]()
        body = '<rect xy="0 0" wh="1"/>' + "".join(item() for _ in range(rnd.randint(2, 4)))
        tmpl = f'<{tag} id="t">{body}</{tag}>'
        leaf = '<rect id="leaf" wh="$w 1"/>'
        ninst = rnd.choice([1, 2, 2])
        place = rnd.choice(["xy-attrs", "x", "y", "none"])
        for i in range(ninst):
            kw = alloc([(6 + 2 * i, *S), (4 + i, *S)])
            kp = len(vars_)
            ra, _ta, nv = inst_attrs(place, kp)
            alloc([(10 + 20 * i, *V), (-7 * i, *V)][:nv])
            inst_vars.append(list(range(kw, len(vars_))))
            lab, col = ("one", "red") if i == 0 else ("two", "blue")
            dr, dt, cls = deco_attrs(rnd.choice(["plain", "id", "id+class+style"]), i)
            reuse_doc.append(f'<reuse{dr} href="#t" p="[[{kw}]]" q="[[{kw + 1}]]" lab="{lab}" col="{col}"{ra}/>')
            tx = {"xy-attrs": f' transform="translate([[{kp}]], [[{kp + 1}]])"', "x": f' transform="translate([[{kp}]], 0)"', "y": f' transform="translate(0, [[{kp}]])"', "none": ""}[place]
            sub = body.replace("$p", f"[[{kw}]]").replace("$q", f"[[{kw + 1}]]").replace("$lab", lab).replace("$col", col)
            # the inner reuse of the leaf template, written out by hand
            sub = re.sub(r'<reuse href="#leaf" w="(\[\[\d+\]\])" x="(\[\[\d+\]\])" y="0"/>', r'<rect xy="\2 0" wh="\1 1" class="leaf"/>', sub)
            twin_doc.append(f'<g{dt}{tx} class="{cls}">{sub}</g>')
        specs_leaf = f"<specs>{leaf}</specs>"
        if where == "specs":
            d0 = "<svg>" + f"<specs>{leaf}{tmpl}</specs>" + "".join(reuse_doc) + "</svg>"
            d1 = "<svg>" + "".join(twin_doc) + "</svg>"
        elif where == "defs":
            d0 = "<svg>" + specs_leaf + f"<defs>{tmpl}</defs>" + "".join(reuse_doc) + "</svg>"
            d1 = None
        else:
            d0 = "<svg>" + specs_leaf + tmpl + "".join(reuse_doc) + "</svg>"
            d1 = None
        if d1 is None:
            # templates outside <specs> need their parameters to exist where they stand: the twin keeps them (with the same bindings
            # supplied by an enclosing scope in both documents)
            scope = f'<g p="2" q="3" lab="L" col="c">'
            wrapped = f"<defs>{tmpl}</defs>" if where == "defs" else tmpl
            d0 = "<svg>" + specs_leaf + scope + wrapped + "</g>" + "".join(reuse_doc) + "</svg>"
            d1 = "<svg>" + specs_leaf + scope + wrapped + "</g>" + "".join(twin_doc) + "</svg>"
    elif fam == "reuse-forms2":
        kw = alloc([(6, *S), (4, *S)])
        kp = alloc([(30, *V), (-9, *V)])
        W, H, X, Y = f"[[{kw}]]", f"[[{kw + 1}]]", f"[[{kp}]]", f"[[{kp + 1}]]"
        form = td["form"]
        if form in ("polygon", "polyline", "path"):
            tm = {"polygon": '<polygon id="t" points="0 0 $w 0 3 $h"/>', "polyline": '<polyline id="t" points="0 0 $w $h"/>', "path": '<path id="t" d="M 0 0 h $w v $h"/>'}[form]
            tw = {"polygon": f'<polygon points="0 0 {W} 0 3 {H}"', "polyline": f'<polyline points="0 0 {W} {H}"', "path": f'<path d="M 0 0 h {W} v {H}"'}[form]
            d0 = f'<svg><specs>{tm}</specs><reuse href="#t" w="{W}" h="{H}" x="{X}" y="{Y}"/><reuse href="#t" w="{W}" h="{H}" x="{X}"/></svg>'
            d1 = f'<svg>{tw} transform="translate({X}, {Y})" class="t"/>{tw} transform="translate({X}, 0)" class="t"/></svg>'
        elif form == "line":
            d0 = f'<svg><specs><line id="t" xy1="0 0" xy2="$w $h"/></specs><reuse href="#t" w="{W}" h="{H}" x="{X}" y="{Y}"/></svg>'
            d1 = f'<svg><line xy1="{X} {Y}" xy2="{{{{{X} + {W}}}}} {{{{{Y} + {H}}}}}" class="t"/></svg>'
        elif form == "text":
            d0 = f'<svg><specs><text id="t" xy="0 0" text="$lab"/></specs><reuse href="#t" lab="hi" x="{X}" y="{Y}"/></svg>'
            d1 = f'<svg><text xy="{X} {Y}" text="hi" class="t"/></svg>'
        elif form == "two-valued-binding":
            d0 = f'<svg><specs><rect id="t" wh="$size"/></specs><reuse href="#t" size="{W} {H}" x="{X}" y="{Y}"/></svg>'
            d1 = f'<svg><rect xy="{X} {Y}" wh="{W} {H}" class="t"/></svg>'
        elif form in ("compound-expr-spaces", "compound-expr-nospaces"):
            ex = "{{$s * 2}}" if form.endswith("-spaces") else "{{$s*2}}"
            d0 = f'<svg><specs><rect id="t" wh="{ex} $s"/></specs><reuse href="#t" s="{W}" x="{X}" y="{Y}"/></svg>'
            d1 = f'<svg><rect xy="{X} {Y}" wh="{{{{{W} * 2}}}} {W}" class="t"/></svg>'
        elif form == "one-valued-binding":
            d0 = f'<svg><specs><rect id="t" wh="$size"/></specs><reuse href="#t" size="{W}" x="{X}" y="{Y}"/></svg>'
            d1 = f'<svg><rect xy="{X} {Y}" wh="{W}" class="t"/></svg>'
        elif form.startswith("group-defaults"):
            # attributes of a group template are defaults for its content; a binding on the reuse element overrides them,
            # whatever the name
            wn, hn = ("width", "height") if form.endswith("wh") else ("w", "h")
            bind = "" if form.endswith("none") else f' {wn}="{W}"'
            d0 = f'<svg><specs><g id="box" {wn}="10" {hn}="5"><rect xy="{X} {Y}" wh="${wn} ${hn}"/></g></specs><reuse href="#box"{bind}/></svg>'
            d1 = f'<svg><g {wn}="{"10" if form.endswith("none") else W}" {hn}="5" class="box"><rect xy="{X} {Y}" wh="{"10" if form.endswith("none") else W} 5"/></g></svg>'
        elif form.startswith("style-"):
            # the instance carries the reuse element's style; the template's own style is what it falls back to
            ts = ' style="stroke:blue"' if form != "style-reuse-only" else ""
            rs = ' style="fill:red"' if form != "style-template-only" else ""
            want = ' style="fill:red"' if rs else ts
            if form == "style-both-group":
                d0 = f'<svg><specs><g id="t"{ts}><rect xy="{X} {Y}" wh="{W} {H}"/></g></specs><reuse href="#t"{rs}/></svg>'
                d1 = f'<svg><g{want} class="t"><rect xy="{X} {Y}" wh="{W} {H}"/></g></svg>'
            else:
                d0 = f'<svg><specs><rect id="t" wh="$w $h"{ts}/></specs><reuse href="#t" w="{W}" h="{H}" x="{X}" y="{Y}"{rs}/></svg>'
                d1 = f'<svg><rect xy="{X} {Y}" wh="{W} {H}"{want} class="t"/></svg>'
        elif form == "recursive-bounded":
            # a template that reuses itself under an <if> on a bound variable unfolds like its hand-written nesting
            d0 = (f'<svg><specs><g id="nest"><rect xy="{X} {Y}" wh="$n {W}"/><if test="gt($n, 1)"><reuse href="#nest" n="{{{{$n - 1}}}}"/></if></g></specs><reuse href="#nest" n="3"/></svg>')
            d1 = (f'<svg><g class="nest"><rect xy="{X} {Y}" wh="3 {W}"/><g class="nest"><rect xy="{X} {Y}" wh="2 {W}"/><g class="nest"><rect xy="{X} {Y}" wh="1 {W}"/></g></g></g></svg>')
        elif form == "class-rebinding":
            d0 = f'<svg><var k="1"/><specs><rect id="t" wh="$w $h"/></specs><reuse href="#t" class="lvl-$k" k="{{{{$k + 1}}}}" w="{W}" h="{H}" x="{X}" y="{Y}"/></svg>'
            d1 = f'<svg><rect xy="{X} {Y}" wh="{W} {H}" class="lvl-1 t"/></svg>'
        else:
            d0 = (f'<svg><var k="10"/><specs><rect id="t" wh="$w $h"/></specs><loop count="2" loop-var="n"><reuse href="#t" class="from-$k" k="{{{{$k + $n + 1}}}}" w="{W}" h="{H}" x="{X}" y="{{{{$n * 20}}}}"/></loop></svg>')
            d1 = f'<svg><rect xy="{X} 0" wh="{W} {H}" class="from-10 t"/><rect xy="{X} 20" wh="{W} {H}" class="from-10 t"/></svg>'
        inst_vars.append(list(range(kw, len(vars_))))
    elif fam == "reuse-forms":
        kw = alloc([(6, *S), (4, *S)])
        kp = alloc([(30, *V), (-9, *V)])
        W, H, X, Y = f"[[{kw}]]", f"[[{kw + 1}]]", f"[[{kp}]]", f"[[{kp + 1}]]"
        form = td["form"]
        if form == "chain-bind":
            # b is a reuse of a with one binding; reusing b adds another: both reach the template
            d0 = f'<svg><specs><g id="a"><rect xy="{X} {Y}" wh="{W} {H}" text="$t $u"/></g><reuse id="b" href="#a" t="2"/></specs><reuse href="#b" u="3"/></svg>'
            d1 = f'<svg><g class="b a"><rect xy="{X} {Y}" wh="{W} {H}" text="2 3"/></g></svg>'
        elif form == "chain-bind3":
            d0 = (f'<svg><specs><g id="a"><rect xy="{X} {Y}" wh="{W} {H}" text="$t $u $v"/></g><reuse id="b" href="#a" t="2"/><reuse id="c" href="#b" u="3"/></specs>'
                  f'<reuse href="#c" v="4"/><reuse href="#b" u="8" v="9"/></svg>')
            d1 = (f'<svg><g class="c b a"><rect xy="{X} {Y}" wh="{W} {H}" text="2 3 4"/></g><g class="b a"><rect xy="{X} {Y}" wh="{W} {H}" text="2 8 9"/></g></svg>')
        elif form == "chain-bind-shape":
            d0 = f'<svg><specs><rect id="a" xy="{X} {Y}" wh="{W} {H}" text="$t $u"/><reuse id="b" href="#a" t="2"/></specs><reuse href="#b" u="3"/></svg>'
            d1 = f'<svg><rect xy="{X} {Y}" wh="{W} {H}" text="2 3" class="b a"/></svg>'
        elif form == "chain2":
            # b is a reuse of a with one binding; reusing b adds further bindings: all of them reach the template
            d0 = f'<svg><specs><rect id="a" wh="$t $u"/><reuse id="b" href="#a" t="{W}"/></specs><reuse href="#b" u="{H}" x="{X}" y="{Y}"/></svg>'
            d1 = f'<svg><rect xy="{X} {Y}" wh="{W} {H}" class="a b"/></svg>'
        elif form == "chain2-group":
            d0 = f'<svg><specs><g id="a"><rect xy="0 0" wh="$t $u"/></g><reuse id="b" href="#a" t="{W}"/></specs><reuse href="#b" u="{H}" x="{X}" y="{Y}"/></svg>'
            d1 = f'<svg><g transform="translate({X}, {Y})" class="a b"><rect xy="0 0" wh="{W} {H}"/></g></svg>'
        elif form == "chain3":
            d0 = (f'<svg><specs><rect id="a" wh="$t $u" data-v="$v"/><reuse id="b" href="#a" t="{W}"/><reuse id="c" href="#b" u="{H}"/></specs>'
                  f'<reuse href="#c" v="7" x="{X}" y="{Y}"/></svg>')
            d1 = f'<svg><rect xy="{X} {Y}" wh="{W} {H}" data-v="7" class="a b c"/></svg>'
        elif form == "computed-id":
            d0 = f'<svg><var name="box"/><specs><rect id="${{name}}_tpl" wh="$w $h"/></specs><reuse href="#box_tpl" w="{W}" h="{H}" x="{X}" y="{Y}"/></svg>'
            d1 = f'<svg><rect xy="{X} {Y}" wh="{W} {H}" class="box_tpl"/></svg>'
        elif form == "computed-id-loop":
            d0 = f'<svg><specs><loop count="2" loop-var="n"><rect id="t$n" wh="$w 2"/></loop></specs><reuse href="#t1" w="{W}" x="{X}" y="{Y}"/></svg>'
            d1 = f'<svg><rect xy="{X} {Y}" wh="{W} 2" class="t1"/></svg>'
        elif form == "reads-id":
            d0 = f'<svg><specs><rect id="t" wh="$w $h" data-name="$id"/></specs><reuse id="inst" href="#t" w="{W}" h="{H}" x="{X}" y="{Y}"/></svg>'
            d1 = f'<svg><rect id="inst" xy="{X} {Y}" wh="{W} {H}" data-name="inst" class="t"/></svg>'
        elif form == "reads-id-class":
            d0 = f'<svg><specs><rect id="t" wh="$w $h" class="for-$id"/></specs><reuse id="inst" href="#t" w="{W}" h="{H}" x="{X}" y="{Y}"/></svg>'
            d1 = f'<svg><rect id="inst" xy="{X} {Y}" wh="{W} {H}" class="for-inst t"/></svg>'
        else:
            d0 = f'<svg><var id="outer"/><specs><rect id="t" wh="$w $h" data-name="$id"/></specs><reuse id="inst" href="#t" w="{W}" h="{H}" x="{X}" y="{Y}"/></svg>'
            d1 = f'<svg><rect id="inst" xy="{X} {Y}" wh="{W} {H}" data-name="inst" class="t"/></svg>'
        inst_vars.append(list(range(kw, len(vars_))))
    elif fam == "reuse-prev":
        # href="^": the previous element is the template; the rules about ids and classes are the same as for href="#id"
        kw = alloc([(6, *S), (4, *S)])
        kp = len(vars_)
        ra, ta, nv = inst_attrs(td["place"], kp)
        alloc([(30, *V), (-9, *V)][:nv])
        form = td["form"]
        tid = "" if form == "prev-noid" else ' id="q"'
        tmpl = f'<rect{tid} xy="1 2" wh="[[{kw}]] [[{kw + 1}]]"/>'
        own = ' id="z"' if form == "prev-id-own-id" else ""
        use = f'<reuse{own} href="^"{ra}/>'
        cls = "" if form == "prev-noid" else ' class="q"'
        tpos = ta if ta else 'xy="1 2"'
        twin = f'<rect{own} {tpos} wh="[[{kw}]] [[{kw + 1}]]"{cls}/>'
        tail = '<circle cxy="#q@c" r="1"/>' if form == "prev-then-ref" else ""
        d0, d1 = f"<svg>{tmpl}{use}{tail}</svg>", f"<svg>{tmpl}{twin}{tail}</svg>"
        inst_vars.append(list(range(kw, len(vars_))))
    elif fam == "specs-nested":
        # an element with an id nested in a group inside <specs> is a template like any other
        kw = alloc([(6, *S), (4, *S)])
        kp = alloc([(30, *V), (-9, *V)])
        form = td["form"]
        tag = "symbol" if form == "part-of-symbol" else "g"
        inner = '<rect id="brick" wh="$w 2"/>' if form != "part-size-ref" else '<rect id="brick" wh="5 2"/>'
        kit = f'<{tag} id="kit">{inner}<circle id="knob" r="1"/></{tag}>'
        if form == "part-deep":
            kit = f'<g id="box"><g id="mid">{kit}</g></g>'
        if form == "part-size-ref":
            d0 = f'<svg><specs>{kit}</specs><rect xy="[[{kp}]] [[{kp + 1}]]" wh="#brick"/></svg>'
            d1 = f'<svg><rect xy="[[{kp}]] [[{kp + 1}]]" wh="5 2"/></svg>'
        else:
            d0 = f'<svg><specs>{kit}</specs><reuse href="#brick" w="[[{kw}]]" x="[[{kp}]]" y="[[{kp + 1}]]"/></svg>'
            d1 = f'<svg><rect xy="[[{kp}]] [[{kp + 1}]]" wh="[[{kw}]] 2" class="brick"/></svg>'
        inst_vars.append(list(range(kw, len(vars_))))
    elif fam == "textparam":
        kw = alloc([(6, *S), (4, *S)])
        kp = len(vars_)
        ra, ta, nv = inst_attrs(td["place"], kp)
        alloc([(30, *V), (-9, *V)][:nv])
        head = f"<specs>{SHAPES['recttext'][0]}</specs>"
        d0 = f'<svg>{head}<reuse href="#t" w="[[{kw}]]" h="[[{kw + 1}]]" lab="hi" col="red"{ra}/></svg>'
        d1 = f'<svg><rect {ta} wh="[[{kw}]] [[{kw + 1}]]" text="hi" class="d-red t"/></svg>'
        inst_vars.append(list(range(kw, len(vars_))))
    else:
        raise ValueError(fam)

    def check(r):
        if r.docs[1]["status"] != "ok":
            # the hand-written twin uses only plain svgdx; if it is rejected the template is wrong (reported as an internal error)
            raise RuntimeError("the hand-written twin is rejected: " + r.docs[1]["msg"][:200] + " :: " + d1[:300])
        if r.docs[0]["status"] != "ok":
            return [Obl("reuse-document-ok", FAIL, ground=True, note=r.docs[0]["msg"][:200])]
        o0, o1 = Out(r.docs[0]["output"]), Out(r.docs[1]["output"])
        obls = []
        obls.append(Obl("specs-not-rendered", PASS if not o0.by_tag("specs") and not o0.by_tag("reuse") else FAIL, ground=True))
        if fam == "reuse-forms2":
            for o in (o0, o1):
                for tg in ("polygon", "polyline", "path"):
                    for g in o.by_tag(tg):
                        if g.get("transform") is None:
                            g.set("transform", "translate(0, 0)")
        if fam in ("group", "symbol", "groupfixed", "nested", "empty-binding", "groupgen"):
            # a group without a transform is a group translated by (0, 0): compared as such
            for o in (o0, o1):
                for g in o.by_tag("g"):
                    if g.get("transform") is None:
                        g.set("transform", "translate(0, 0)")
        if fam == "groupfixed":
            # the instance's transform: the reuse element's own transform first, then the translation that puts the (origin-anchored)
            # content box where the placement attributes say; a zero translation may be left out
            from vlib.twin import split_numeric
            g0, g1 = o0.by_id("i0"), o1.by_id("i0")
            xf_, tr_ = gf_expect
            got = g0.attrib.pop("transform", None) if g0 is not None else None
            if g1 is not None:
                g1.attrib.pop("transform", None)
            if g0 is None:
                obls.append(Obl("instance-present", FAIL, ground=True))
            elif tr_ is None:
                obls.append(Obl("instance-transform", PASS if (got or "translate(0, 0)") in (xf_ or "translate(0, 0)", (xf_ + " translate(0, 0)").strip()) else FAIL, ground=True, note=str(got)))
            else:
                skel, terms = split_numeric(o0, got or "translate(0, 0)")
                want_skel = split_numeric(o0, (xf_ + " " if xf_ else "") + "translate(0, 0)")[0]
                nx = len(terms) - 2
                if skel != want_skel or nx < 0:
                    # a translation by (0, 0) may be omitted altogether
                    if (got or "") == xf_:
                        obls.append(Obl("instance-translation-omitted-only-when-zero", not_(and_(eq(tr_[0], "0.0"), eq(tr_[1], "0.0")))))
                    else:
                        obls.append(Obl("instance-transform-form", FAIL, ground=True, note=f"{got!r} expected {want_skel!r}"))
                else:
                    obls.append(Obl("instance-translate-x", ne(terms[nx], plus(tr_[0], "1.0") if wrong else tr_[0])))
                    obls.append(Obl("instance-translate-y", ne(terms[nx + 1], tr_[1])))
        obls += compare_outputs(o0, o1, wrong=wrong and fam != "groupfixed", skip_root=(fam == "groupfixed"))
        # independence of instances (term DAG): instance i's numbers mention only its own variables
        if len(inst_vars) > 1 and not r.native:
            nz = Normalizer(r)
            top = [e for e in o0.children(o0.root) if o0.tag(e) not in ("defs", "style")]
            if len(top) == len(inst_vars):
                for i, e in enumerate(top):
                    own = set(f"v{k}" for k in inst_vars[i])
                    seen = set()
                    for el in [e] + list(e.iter()):
                        for v in el.attrib.values():
                            for t in re.findall(r"8888(\d{6})\.5", v):
                                seen |= vars_of(nz, int(t))
                    foreign = sorted(x for x in seen if x not in own)
                    obls.append(Obl(f"instance{i}-independent", PASS if not foreign else FAIL, ground=True, note=",".join(foreign)))
        return obls
    name = f"{fam}/" + "/".join(f"{k}={v}" for k, v in td.items() if k != "fam")
    role = f"C18/{fam}"
    if fam == "reuse-forms" and td["form"] in ("chain2", "chain2-group", "chain3"):
        role = "C18/nested-reuse-placement-and-size"     # role signature of an open finding
    if fam == "reuse-forms2" and td["form"] in ("line", "text"):
        role = "C18/line-and-text-templates"
    if fam == "reuse-forms2" and td["form"] in ("two-valued-binding", "compound-expr-spaces"):
        role = "C18/two-valued-binding"
    return Template(name, [d0, d1], vars_, check, family=fam, role=role, cap=8, assume=assume)


import re


def vars_of(nz, tid):
    """variables a term depends on (through atoms)"""
    out = set()
    seen = set()

    def go(i):
        if i in seen:
            return
        seen.add(i)
        ex, g, vb, op, a = nz.run.terms[i]
        if op == "var":
            out.add(f"v{a[0]}")
        elif op == "const":
            return
        elif op == "app":
            for x in a[1:]:
                go(int(x))
        else:
            for x in a:
                go(int(x))
    # dependence is judged on the simplified linear form where possible (x + w - x does not depend on x)
    l = nz.lin(tid)
    for k in l:
        if k.startswith("v"):
            out.add(k)
        elif k.startswith("a"):
            for h, nm in nz.atom_name.items():
                if nm == k:
                    pass
            go(tid)
    return out
