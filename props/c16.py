"""C16 Loops and conditionals render exactly what their unrolling renders (translation validation, DESIGN.md §5)."""
import random, itertools
from fractions import Fraction
from vlib.engine import *  # noqa
from vlib.twin import compare_outputs
from vlib.harness import sample_quota

PROP = "C16"
LEVEL = "translation_validation"
ANCHOR_PREFIXES = ["loop_el::", "transform::", "expression::eval_condition", "expression::eval_list", "expression::", "context::", "element::", "position::"]
BOUNDS = ("bodies of 1-3 elements from {shape using the loop variable, ^|h chain, ^@br circle, accumulating <var>, group, text, nested <if> on the loop variable, nested count loop}; forms: count 0..3 "
          "with and without loop-var (symbolic start/step, either sign), while / until over a counter with symbolic start, step and bound (trip count 0..3 resp. 1..3 fixed by an assumption over the "
          "symbolic values), <for> over 1..3 symbolic items with optional index, <if> with a symbolic test (both outcomes, also a test that needs an element defined later); every loop is followed by an element reading the loop variable (over a pre-existing variable of that name); count given as an expression over a variable the body changes; arithmetic (non-comparison) conditions; loops at top level and inside <g>; values k/2 in [-64,64]; seeded generated bodies (quick 60, thorough 600) of 1-4 items over the element vocabulary (shapes at $i-expressions, '^'-relative shapes, text, accumulators, nested if / loop / g, reuse, polyline, path, use, surround, point, box, relative sizes, bodies that write the loop variable); start / step finer than 1/1000; many false <if> in long loops; ground families: tests over variables holding expression text, count expressions whose single-precision value lies just below a whole number, while / until conditions over element references, passes that render nothing (last, middle, inside a referenced group)")
ASSUMPTIONS = ["the unrolled twin is generated mechanically: body copied k times with the loop variable bound by <var> to start, start+step, ... (repeated addition), <for> items bound in turn with their index, <if> replaced by its body or by nothing",
               "both documents run in one engine session over the same symbolic values; the whole output (element sequence, attributes, root extent) is compared"]

V = (-64, 64, 1)
VS = (0, 32, 1)


def bodies():
    """name -> fn(k0) -> (markup using $i, varspecs, prelude markup)"""
    return {
        "rectvar": lambda k0: (f'<rect xy="{{{{$i * 2}}}} [[{k0}]]" wh="[[{k0 + 1}]] 3"/>', [(5, *V), (4, *VS)], ""),
        "relh": lambda k0: (f'<rect xy="^|h [[{k0}]]" wh="4 3"/>', [(2, *V)], '<rect xy="1 2" wh="3 4"/>'),
        "circ": lambda k0: (f'<circle cxy="^@br" r="[[{k0}]]"/>', [(2, *VS)], '<rect xy="1 2" wh="3 4"/>'),
        "acc": lambda k0: ('<var acc="{{$acc + $i}}"/><rect xy="$acc 0" wh="1"/>', [(3, *V)], f'<var acc="[[{k0}]]"/>'),
        "group": lambda k0: (f'<g><rect xy="$i [[{k0}]]" wh="2"/></g>', [(3, *V)], ""),
        "text": lambda k0: (f'<text xy="$i [[{k0}]]">t</text>', [(3, *V)], ""),
        "if": lambda k0: (f'<if test="gt($i, [[{k0}]])"><rect xy="$i 0" wh="1"/></if><rect xy="0 $i" wh="1"/>', [(1, *V)], ""),
        "nested": lambda k0: (f'<loop count="2" loop-var="j"><rect xy="{{{{$i + $j}}}} [[{k0}]]" wh="1"/></loop>', [(3, *V)], ""),
        "two": lambda k0: (f'<rect xy="$i [[{k0}]]" wh="2"/><rect xy="^|v [[{k0 + 1}]]" wh="2 1"/>', [(3, *V), (1, *V)], ""),
        # the body writes the loop variable itself: the next pass starts from the loop's own counter all the same
        "selfassign": lambda k0: (f'<rect xy="$i [[{k0}]]" wh="1"/><var i="{{{{$i * 10 + 5}}}}"/><rect xy="$i 7" wh="1"/>', [(3, *V)], ""),
        "shadowloop": lambda k0: (f'<rect xy="$i [[{k0}]]" wh="1"/><loop count="2" loop-var="i"><rect xy="{{{{$i + 20}}}} 3" wh="1"/></loop><rect xy="$i 9" wh="1"/>', [(3, *V)], ""),
        "shadowfor": lambda k0: (f'<rect xy="$i [[{k0}]]" wh="1"/><for var="i" data="40, 50"><rect xy="$i 3" wh="1"/></for>', [(3, *V)], ""),
        "line": lambda k0: (f'<line xy1="$i 0" xy2="[[{k0}]] {{{{$i + 1}}}}"/>', [(9, *V)], ""),
    }


def gen_body(gseed, allow_self=True):
    """a seeded random body of 1-4 items drawn from the element vocabulary; returns fn(k0) -> (markup, varspecs, prelude)"""
    def make(k0):
        rnd = random.Random(31337 + gseed)
        vs = []

        def nv(init, dom):
            vs.append((init, *dom))
            return f"[[{k0 + len(vs) - 1}]]"
        prelude = ('<specs><rect id="tpl" wh="$w 2"/><circle id="tpc" r="$w"/></specs><defs><rect id="u" wh="2 1"/></defs><rect id="fix" xy="-40 -40" wh="3 4"/>')

        def item(depth):
            k = rnd.choice(["rect", "rect", "circle-rel", "rect-rel", "ellipse", "text", "shapetext", "acc", "if", "loop", "g", "reuse", "reusec", "polyline", "path", "use", "surround", "line", "point", "box", "relsize", "selfassign", "shadowloop"])
            if k in ("if", "loop", "g") and depth >= 2:
                k = "rect"
            if k in ("selfassign", "shadowloop") and not allow_self:
                k = "rect"
            if k == "rect":
                return f'<rect xy="{{{{$i * 2}}}} {nv(5, V)}" wh="{nv(4, VS)} 3"/>'
            if k == "selfassign":
                return f'<var i="{{{{$i * 2 + {nv(1, V)}}}}}"/><rect xy="$i 7" wh="1"/>'
            if k == "shadowloop":
                return f'<loop count="2" loop-var="i"><rect xy="{{{{$i + 20}}}} {nv(3, V)}" wh="1"/></loop>'
            if k == "circle-rel":
                return f'<circle cxy="^@{rnd.choice(["br", "t", "c", "l"])}" r="{nv(2, VS)}"/>'
            if k == "rect-rel":
                return f'<rect xy="^|{rnd.choice("hHvV")} {nv(2, V)}" wh="4 3"/>'
            if k == "ellipse":
                return f'<ellipse cxy="$i {nv(3, V)}" rxy="3 {nv(2, VS)}"/>'
            if k == "text":
                return f'<text xy="$i {nv(3, V)}">t</text>'
            if k == "shapetext":
                return f'<rect xy="{nv(3, V)} $i" wh="9 5" text="n" text-loc="{rnd.choice(["tl", "b", "c"])}"/>'
            if k == "acc":
                return '<var acc="{{$acc + $i}}"/><rect xy="$acc 0" wh="1"/>'
            if k == "if":
                return f'<if test="{rnd.choice(["gt", "lt", "ge"])}($i, {nv(1, V)})">{item(depth + 1)}</if>'
            if k == "loop":
                return f'<loop count="2" loop-var="j{depth}"><rect xy="{{{{$i + $j{depth}}}}} {nv(3, V)}" wh="1"/>{item(depth + 1)}</loop>'
            if k == "g":
                return f"<g>{item(depth + 1)}{item(depth + 1)}</g>"
            if k == "reuse":
                return f'<reuse href="#tpl" w="{nv(4, VS)}" x="$i" y="{nv(7, V)}"/>'
            if k == "reusec":
                return f'<reuse href="#tpc" w="{nv(3, VS)}" x="{nv(7, V)}" y="$i"/>'
            if k == "polyline":
                return f'<polyline points="$i 0 {nv(9, V)} 5 3 $i"/>'
            if k == "path":
                return f'<path d="M $i 0 h {nv(9, V)} v 3 z"/>'
            if k == "use":
                return f'<use href="#u" x="$i" y="{nv(3, V)}"/>'
            if k == "surround":
                return f'<rect surround="^" margin="{nv(1, VS)}"/>'
            if k == "line":
                return f'<line xy1="$i 0" xy2="{nv(9, V)} {{{{$i + 1}}}}"/>'
            if k == "point":
                return f'<point xy="$i {nv(3, V)}"/><rect xy="^|h 1" wh="2"/>'
            if k == "box":
                return f'<box xy="$i {nv(3, V)}" wh="4 {nv(2, VS)}"/><circle cxy="^@c" r="1"/>'
            return f'<rect xy="$i {nv(3, V)}" wh="^ 50%"/>'
        body = "".join(item(0) for _ in range(rnd.randint(1, 4)))
        return body, vs, prelude + '<var acc="1"/><rect xy="1 2" wh="3 4"/>'
    return make


NGEN = {"quick": 60, "thorough": 600}


def templates(tier, seed):
    tds = []
    B = list(bodies())
    for gi in range(NGEN[tier]):
        gname = f"gen{gi + 1000 * seed}"
        form = gi % 5
        if form == 0:
            tds.append(dict(fam="count", body=gname, n=2, lv=True, where="top"))
        elif form == 1:
            tds.append(dict(fam="while", body=gname, k=2, where="top"))
        elif form == 2:
            tds.append(dict(fam="until", body=gname, k=2, where="top"))
        elif form == 3:
            tds.append(dict(fam="for", body=gname, n=2, idx=True))
        else:
            tds.append(dict(fam="count", body=gname, n=3, lv=True, where="in-g"))
    for b in B:
        for n in (0, 1, 2, 3):
            for lv in (True, False):
                for where in ("top", "in-g"):
                    if not lv and b in ("rectvar", "acc", "group", "text", "if", "nested", "two", "line"):
                        continue
                    tds.append(dict(fam="count", body=b, n=n, lv=lv, where=where))
        for k in (0, 1, 2, 3):
            if b in ("selfassign", "shadowloop", "shadowfor"):
                continue    # (the while / until templates use $i as their own counter)
            tds.append(dict(fam="while", body=b, k=k, where="top"))
            if k >= 1:
                tds.append(dict(fam="until", body=b, k=k, where="top"))
        for n in (1, 2, 3):     # an empty data attribute is not a list expression (rejected as malformed): not asserted
            for idx in (False, True):
                tds.append(dict(fam="for", body=b, n=n, idx=idx))
    for b in ("relh", "circ", "two0", "group0"):
        for test in ("gt", "diff", "neg-const", "sum", "later-elem", "later-elem-false"):
            if test.startswith("later-elem") and b in ("relh", "circ"):
                continue
            tds.append(dict(fam="if", body=b, test=test))
    for start, step in (("0.0625", "0.0625"), ("0.0004", "0.0004"), ("-0.03125", "0.015625"), ("1.00048828125", "0.5")):
        for n in (2, 3):
            tds.append(dict(fam="fine-step", body="rectvar", n=n, start=start, step=step))
    for form in ("count", "start-step", "in-g", "reuse-group"):
        for n in (2, 3):
            tds.append(dict(fam="nested-dep", body="rectvar", form=form, n=n))
    for n in (8, 12):
        for test in ("eq($i, 3)", "0", "gt($i, 100)"):
            tds.append(dict(fam="if-in-long-loop", body="rectvar", n=n, test=test))
    for form in ("while", "until", "if", "while-sub"):
        for k in (1, 2, 3):
            tds.append(dict(fam="textvar", body="rectvar", form=form, k=k))
    for form in ("count-frac-0.9/0.3", "count-frac-1.8/0.6", "count-frac-4.2/0.6", "count-frac-var", "while-elemref", "until-elemref", "while-elemref-id", "for-empty-pass-last", "for-empty-pass-mid", "for-empty-pass-in-g",
                 "loop-empty-pass-last"):
        for k in (1, 2):
            tds.append(dict(fam="ground2", body="rectvar", form=form, k=k))
    for b in B:
        for n in (1, 2, 3):
            tds.append(dict(fam="count-var", body=b, n=n))
        for k in (1, 2, 3):
            tds.append(dict(fam="while-arith", body=b, k=k))
    return tds


def twins(tier, seed):
    return [dict(fam="count", body="rectvar", n=2, lv=True, where="top"), dict(fam="while", body="relh", k=2, where="top"), dict(fam="for", body="two", n=2, idx=True)]


def build(td, wrong=False):
    fam = td["fam"]
    vars_ = []

    def alloc(specs):
        k0 = len(vars_)
        vars_.extend(specs)
        return k0
    if fam == "if":
        ka = alloc([(3, *V), (1, *V)])
        body = {"relh": '<rect xy="^|h 2" wh="4 3"/>', "circ": '<circle cxy="^@br" r="2"/>', "two0": '<rect xy="5 6" wh="2"/><rect xy="^|v 1" wh="2 1"/>',
                "group0": '<g><rect xy="5 6" wh="2"/></g>'}[td["body"]]
        kb = alloc([(7, *V)])
        pre = f'<rect xy="[[{kb}]] 2" wh="3 4"/>'
        post = '<rect xy="^|h 1" wh="1"/>'
        tform = td.get("test", "gt")
        # a condition is true iff its value is non-zero: arithmetic values (negative ones too) count as true
        ttxt, test = {"gt": (f"gt([[{ka}]], [[{ka + 1}]])", gt(f"v{ka}", f"v{ka + 1}")),
                      "diff": (f"{{{{[[{ka}]] - [[{ka + 1}]]}}}}", ne(f"v{ka}", f"v{ka + 1}")),
                      "neg-const": (f"{{{{[[{ka}]] - [[{ka + 1}]] - 1000}}}}", ne(minus(f"v{ka}", f"v{ka + 1}"), "1000.0")),
                      "sum": (f"[[{ka}]] + [[{ka + 1}]]", ne(plus(f"v{ka}", f"v{ka + 1}"), "0.0")),
                      # the test needs an element that is defined further down: it has to be evaluated once that is known
                      "later-elem": (f"gt(#zz~x, [[{ka + 1}]])", gt(f"v{ka}", f"v{ka + 1}")),
                      "later-elem-false": (f"lt(#zz~x + 1000, [[{ka + 1}]])", lt(plus(f"v{ka}", "1000.0"), f"v{ka + 1}"))}[tform]
        if tform.startswith("later-elem"):
            # ('^' is resolved when an element is processed; for a held-back <if> that is retry time - outside this property.
            #  The element after the <if> is therefore placed absolutely here, and bodies refer to '^' only internally.)
            post = f'<rect xy="90 90" wh="1"/><rect id="zz" xy="[[{ka}]] 200" wh="1"/>'
        d0 = f'<svg>{pre}<if test="{ttxt}">{body}</if>{post}</svg>'
        d1 = f"<svg>{pre}{body}{post}</svg>"
        d2 = f"<svg>{pre}{post}</svg>"

        def check_if(r):
            if any(d["status"] != "ok" for d in r.docs):
                return [Obl("transform-ok", FAIL, ground=True, note=str([d["msg"][:80] for d in r.docs]))]
            o0, o1, o2 = (Out(d["output"]) for d in r.docs)
            taken = len(o0.all) == len(o1.all)
            obls = [Obl("rendered-iff-test-nonzero", not_(test) if taken else test)]
            return obls + compare_outputs(o0, o1 if taken else o2, wrong=wrong)
        return Template(f"if/{td['body']}/{tform}", [d0, d1, d2], vars_, check_if, family="if", role="C16/if", cap=4)
    bfn = gen_body(int(td["body"][3:]), allow_self=fam in ("count", "for")) if td["body"].startswith("gen") else bodies()[td["body"]]
    kb = alloc([])
    body, bvars, pre = bfn(len(vars_))
    vars_.extend(bvars)
    assume = None
    if fam == "count":
        n = td["n"]
        if td["lv"]:
            ks = alloc([(1, *V), (2, *V)])
            loop = f'<loop count="{n}" loop-var="i" start="[[{ks}]]" step="[[{ks + 1}]]">{body}</loop>'
            un = ""
            for k in range(n):
                val = f"[[{ks}]]" if k == 0 else "{{" + f"[[{ks}]]" + "".join(f" + [[{ks + 1}]]" for _ in range(k)) + "}}"
                un += f'<var i="{val}"/>{body}'
        else:
            loop = f'<loop count="{n}">{body}</loop>'
            un = body * n
    elif fam in ("while", "until"):
        k = td["k"]
        ks = alloc([(0, *V), (1, 0, 16, 1), (k, *V)])       # start, step, bound
        s, t, N = f"v{ks}", f"v{ks + 1}", f"v{ks + 2}"
        inc = f'<var i="{{{{$i + [[{ks + 1}]]}}}}"/>'
        if fam == "while":
            loop = f'<var i="[[{ks}]]"/><loop while="lt($i, [[{ks + 2}]])">{body}{inc}</loop>'
            conds = [lt(plus(s, mul(num(j), t)), N) for j in range(k)] + [ge(plus(s, mul(num(k), t)), N)]
        else:
            loop = f'<var i="[[{ks}]]"/><loop until="ge($i, [[{ks + 2}]])">{body}{inc}</loop>'
            conds = [lt(plus(s, mul(num(j), t)), N) for j in range(1, k)] + [ge(plus(s, mul(num(k), t)), N)]
        un = f'<var i="[[{ks}]]"/>' + (body + inc) * k
        assume = and_(*conds)
        # a starting valuation inside the assumption
        vars_[ks] = (0, *V)
        vars_[ks + 1] = (1, 0, 16, 1)
        vars_[ks + 2] = (k if fam == "while" else max(k, 1), *V)
    elif fam == "fine-step":
        # the loop variable carries its exact value (not a rendering of it): amplified and compared in the body
        n, st, sp = td["n"], td["start"], td["step"]
        body = '<rect xy="{{$i * 16}} {{$i * 10000}}" wh="1"/><if test="gt($i * 10000, 1300)"><circle r="1"/></if>'
        loop = f'<loop count="{n}" loop-var="i" start="{st}" step="{sp}">{body}</loop>'
        un = ""
        for k in range(n):
            # (written as an exact decimal literal: a <var> assigned from an expression stores the 3-decimal rendering)
            val = Fraction(st) + k * Fraction(sp)
            lit = ("%.12f" % float(val)).rstrip("0").rstrip(".")
            assert Fraction(lit) == val
            un += f'<var i="{lit}"/>{body}'
    elif fam == "nested-dep":
        # an inner loop whose count / start / step depend on the outer loop variable is evaluated afresh at every entry
        n, form = td["n"], td["form"]
        ky = alloc([(3, *V)])
        if form == "start-step":
            inner = f'<loop count="2" loop-var="j" start="$i" step="{{{{$i * 10 + 1}}}}"><rect xy="$j [[{ky}]]" wh="1"/></loop>'
        else:
            inner = f'<loop count="{{{{$i + 1}}}}" loop-var="j"><rect xy="{{{{$i * 10 + $j}}}} [[{ky}]]" wh="1"/></loop>'
        if form == "in-g":
            inner = f"<g>{inner}</g>"
        if form == "reuse-group":
            pre = f'<specs><g id="row">{inner}</g></specs>' + pre
            inner = '<reuse href="#row"/>'
        body = inner
        loop = f'<loop count="{n}" loop-var="i">{body}</loop>'
        un = "".join(f'<var i="{k}"/>{body}' for k in range(n))
    elif fam == "if-in-long-loop":
        # many passes whose <if> is false must not use anything up (nesting depth in particular)
        n, test = td["n"], td["test"]
        kv = alloc([(3, *V)])
        inner = f'<rect xy="$i [[{kv}]]" wh="1"/>'
        rest = '<g><g><rect xy="$i 5" wh="1"/></g></g>'
        body = f'<if test="{test}">{inner}</if>{rest}'
        pre = '<config depth-limit="7"/>' + pre
        loop = f'<loop count="{n}" loop-var="i">{body}</loop>'
        # the twin is unrolled completely: each <if> is replaced by its body or by nothing
        taken = (lambda k: k == 3) if test == "eq($i, 3)" else (lambda k: False)
        un = "".join(f'<var i="{k}"/>{inner if taken(k) else ""}{rest}' for k in range(n))
    elif fam == "textvar":
        # variables that hold the text of an expression (assigned without braces) are values like any other: in a test they
        # stand for their value, not for their text ("$i * 2" with i = "0 + 1" is 2)
        k, form = td["k"], td["form"]
        ky = alloc([(3, *V)])
        body = f'<rect xy="{{{{3 * ($i)}}}} [[{ky}]]" wh="1"/>'
        inc = '<var i="$i + 1"/>'
        if form == "while":
            loop = f'<var i="0"/><loop while="lt($i * 2, {2 * k})">{body}{inc}</loop>'
            un = '<var i="0"/>' + (body + inc) * k
        elif form == "while-sub":
            loop = f'<var i="0"/><loop while="{k} - $i">{body}{inc}</loop>'
            un = '<var i="0"/>' + (body + inc) * k
        elif form == "until":
            loop = f'<var i="0"/><loop until="ge($i * 2, {2 * k})">{body}{inc}</loop>'
            un = '<var i="0"/>' + (body + inc) * k
        elif form == "count":
            loop = f'<var i="0" n="{k - 1} + 1"/><loop count="{{{{$n * 2}}}}">{body}{inc}</loop>'
            un = f'<var i="0" n="{k - 1} + 1"/>' + (body + inc) * (2 * k)
        else:
            X = [f'<rect xy="{j} [[{ky}]]" wh="{j + 1}"/>' for j in range(4)]
            loop = (f'<var a="{k}"/><var i="$a + 1"/><if test="eq($i * 2, {2 * k + 2})">{X[0]}</if><if test="eq(10 - $i, {9 - k})">{X[1]}</if><if test="eq($i * 2, {k + 2})">{X[2]}</if>'
                    f'<if test="$i * 0">{X[3]}</if><if test="not(eq($i * 3, {3 * k + 3}))">{X[3]}</if>')
            un = f'<var a="{k}"/><var i="$a + 1"/>{X[0]}{X[1]}'
    elif fam == "ground2":
        form, k = td["form"], td["k"]
        ky = alloc([(3, *V)])
        Y = f"[[{ky}]]"
        if form.startswith("count-frac"):
            # a count expression has the value that the same expression shows anywhere else in the document
            if form == "count-frac-var":
                loop = f'<var len="1.8" pitch="0.6"/><loop count="{{{{$len / $pitch}}}}" loop-var="i"><rect xy="$i {Y}" wh="{k}"/></loop>'
                n = 3
            else:
                a, b = form[11:].split("/")
                n = round(float(a) / float(b))
                loop = f'<loop count="{{{{{a} / {b}}}}}" loop-var="i"><rect xy="$i {Y}" wh="{k}"/></loop>'
            un = "".join(f'<var i="{j}"/><rect xy="{j} {Y}" wh="{k}"/>' for j in range(n))
            if form == "count-frac-var":
                un = '<var len="1.8" pitch="0.6"/>' + un
        elif form in ("while-elemref", "until-elemref", "while-elemref-id"):
            # a condition over element references is a condition like any other: tested afresh before / after each pass
            step = 4 + 2 * k
            first = f'<rect id="b0" xy="0 {Y}" wh="4"/>'
            body = f'<rect xy="^|h {2 * k}" wh="4"/>'
            # x2 of the previous element: 4, 4+step, ...; passes while x2 < 20
            n = len([j for j in range(0, 50) if 4 + j * step < 20])
            if form == "while-elemref":
                loop = f'{first}<loop while="lt(^~x2, 20)">{body}</loop>'
            elif form == "while-elemref-id":
                body = f'<rect id="b$n" xy="^|h {2 * k}" wh="4"/><var n="{{{{$n + 1}}}}"/>'
                loop = f'{first}<var n="1"/><loop while="lt(^~x2, 20) and lt(#b0~x2, 20)">{body}</loop>'
            else:
                loop = f'{first}<loop until="ge(^~x2, 20)">{body}</loop>'
            if form == "while-elemref-id":
                un = f'{first}<var n="1"/>' + body * n
            else:
                un = first + body * n
        else:
            # passes that render nothing leave the extent of the other passes alone (root extent, enclosing group's box)
            vals = {"for-empty-pass-last": [1, 2, 9], "for-empty-pass-mid": [1, 9, 2], "for-empty-pass-in-g": [1, 2, 9], "loop-empty-pass-last": [0, 1, 2]}[form]
            item = lambda v: f'<rect xy="{{{{{v} * 10}}}} {Y}" wh="{3 + k}"/>'
            inner = f'<if test="lt($i, {2 if form.startswith("loop") else 5})"><rect xy="{{{{$i * 10}}}} {Y}" wh="{3 + k}"/></if>'
            if form.startswith("loop"):
                loop = f'<loop count="3" loop-var="i">{inner}</loop>'
                un = "".join(f'<var i="{v}"/>' + (item(v) if v < 2 else "") for v in vals)
            else:
                loop = f'<for var="i" data="{", ".join(map(str, vals))}">{inner}</for>'
                un = "".join(f'<var i="{v}"/>' + (item(v) if v < 5 else "") for v in vals)
            if form.endswith("in-g"):
                loop = f'<g id="grp">{loop}</g><circle cxy="#grp@r" r="1"/>'
                un = f'<g id="grp">{un}</g><circle cxy="#grp@r" r="1"/>'
    elif fam == "count-var":
        # the count is an expression over a variable that the body itself changes: it is evaluated once, on entry
        n = td["n"]
        loop = f'<var n="{n}" i="0"/><loop count="$n">{body}<var n="{{{{$n - 1}}}}" i="{{{{$i + 1}}}}"/></loop>'
        un = f'<var n="{n}" i="0"/>' + (body + '<var n="{{$n - 1}}" i="{{$i + 1}}"/>') * n
    elif fam == "while-arith":
        # `while` repeats as long as its condition is NON-ZERO: a counter running up from a negative start to zero
        k = td["k"]
        ks = alloc([(2, 0, 8, 0)])
        inc = '<var i="{{$i + 1}}" c="{{$c + 1}}"/>'
        loop = f'<var i="{-k}" c="0"/><loop while="$c - {k}">{body}{inc}</loop>'
        un = f'<var i="{-k}" c="0"/>' + (body + inc) * k
    elif fam == "for":
        n = td["n"]
        ks = alloc([(3 + 5 * j, *V) for j in range(n)])
        data = ", ".join(f"[[{ks + j}]]" for j in range(n))
        idx = ' idx-var="n"' if td["idx"] else ""
        b2 = body + ('<rect xy="$n 9" wh="1"/>' if td["idx"] else "")
        loop = f'<for var="i"{idx} data="{data}">{b2}</for>'
        un = "".join(f'<var i="[[{ks + j}]]"' + (f' n="{j}"' if td["idx"] else "") + f"/>{b2}" for j in range(n))
    else:
        raise ValueError(fam)
    post = '<rect xy="^|h 1" wh="1"/>' if td["body"] in ("relh", "circ") else ""
    # whatever the loop leaves behind (loop variable, counters) is visible to later elements exactly as after the unrolling
    post += '<rect xy="$i 90" wh="1"/>'
    pre = f'<var i="[[{alloc([(77, *V)])}]]"/>' + pre
    if td.get("where") == "in-g":
        loop, un = f"<g>{loop}</g>", f"<g>{un}</g>"
    d_loop = f"<svg>{pre}{loop}{post}</svg>"
    d_un = f"<svg>{pre}{un}{post}</svg>"

    def check(r):
        d0, d1 = r.docs
        if d1["status"] != "ok":
            # the unrolling uses plain elements only; if it is rejected the template is wrong (reported as an internal error)
            raise RuntimeError("the unrolled twin is rejected: " + d1["msg"][:200] + " :: " + d_un[:300])
        if d0["status"] != "ok":
            return [Obl("loop-document-ok", FAIL, ground=True, note=d0["msg"][:200])]
        return compare_outputs(Out(d0["output"]), Out(d1["output"]), wrong=wrong)
    name = f"{fam}/{td['body']}/" + "/".join(f"{k}={v}" for k, v in td.items() if k not in ("fam", "body"))
    return Template(name, [d_loop, d_un], vars_, check, family=fam, role=f"C16/{fam}", cap=10, assume=assume)
