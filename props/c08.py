"""C08 Root extent: viewBox, width and height enclose exactly the drawn content (DESIGN.md §5, Appendix A)."""
import random, itertools, re
from fractions import Fraction
from vlib.engine import *  # noqa
from vlib import geom as G
from vlib.harness import sample_quota

PROP = "C08"
LEVEL = "model_checking"
ANCHOR_PREFIXES = ["transform::Transformer::write_root_svg", "transform::process_tags", "transform::", "position::BoundingBox", "element::SvgElement::bbox", "context::",
                   "transform_attr::", "path::", "types::split_unit"]
BOUNDS = ("root <svg> with every subset of {width, height, viewBox} supplied (concrete values), 1-3 top-level children from {rect, circle, ellipse, line, polyline, polygon, path (M L H V Z abs/rel, relative commands after z, several subpaths), "
          "standalone text, box, point, g with translate (symbolic) / scale (0.5, 2, 0.5x2, -1x2, 1x3, 3x1, 1x1, 2x2, one-argument, -1, 1x-2, -2x1, translate+1x3, 1x3+translate, 3x1+translate, translate+-2x1+translate+1x2+translate) nested once, use of a shape, use of a symbol, "
          "shape or group with clip-path (clipPath in defs, before or after its use), defs/specs/symbol content, shape with generated text}; border in {0,3,5}, scale in {0.5,1,2}; positions k/2 in [-256,256], sizes k/2 in [0,128]; loop / for / if children, arcs and curves and seeded random path command sequences, settings supplied through several <config> elements")
ASSUMPTIONS = ["E is recomputed from the output's own geometry for rendered elements (by id) and from the input values for the invisible <box>; generated text, points, defs/specs/symbol content are not counted",
               "a clipped element contributes the intersection with its clip path's content box, nothing when that is empty",
               "derived dimension (one of width/height supplied): asserted with tolerance 0.002 + the 3-decimal output rounding, since the aspect-ratio division is inexact in f32"]

POS = (-256, 256, 1)
SZ = (0, 128, 1)
BIG = "100000.0"


def rand_path(pj, i, k0):
    """a seeded random sequence of 4-8 path commands (every command letter, absolute and relative, several sub-paths) over 4 symbolic values"""
    rnd = random.Random(9000 + pj)
    ph = [f"[[{k0 + j}]]" for j in range(4)]
    val = lambda: rnd.choice(ph + [str(rnd.randint(-9, 9)), str(rnd.randint(-9, 9))])
    d = [f"M {ph[0]} {ph[1]}"]
    for _ in range(rnd.randint(4, 8)):
        c = rnd.choice("LlHhVvCcSsQqTtAaZzMm")
        if c in "Ll" or c in "Tt" or c in "Mm":
            d.append(f"{c} {val()} {val()}")
        elif c in "HhVv":
            d.append(f"{c} {val()}")
        elif c in "Cc":
            d.append(f"{c} 1 2 3 4 {val()} {val()}")
        elif c in "SsQq":
            d.append(f"{c} 1 2 {val()} {val()}")
        elif c in "Aa":
            d.append(f"{c} 4 3 0 {rnd.choice('01')} {rnd.choice('01')} {val()} {val()}")
        else:
            d.append(c)
    return f'<path id="e{i}" d="{" ".join(d)}"/>', [(3, *POS), (14, *POS), (23, *POS), (4 + 9 * i, *POS)], [f"e{i}"], None


def kinds():
    """kind -> fn(i, k0) -> (markup, varspecs, counted ids, extra var-based boxes fn or None)"""
    def four(i, k0, tmpl, init=(3, 4, 20, 10)):
        vs = [(init[0] + 30 * i, *POS), (init[1] + 7 * i, *POS), (init[2], *SZ), (init[3], *SZ)]
        ph = [f"[[{k0 + j}]]" for j in range(4)]
        return tmpl.format(*ph, i=i), vs
    K = {}
    K["rect"] = lambda i, k0: four(i, k0, '<rect id="e{i}" xy="{0} {1}" wh="{2} {3}"/>') + ([f"e{i}"], None)
    K["circle"] = lambda i, k0: (f'<circle id="e{i}" cxy="[[{k0}]] [[{k0 + 1}]]" r="[[{k0 + 2}]]"/>', [(13 + 30 * i, *POS), (9, *POS), (5, *SZ)], [f"e{i}"], None)
    K["ellipse"] = lambda i, k0: four(i, k0, '<ellipse id="e{i}" cxy="{0} {1}" rxy="{2} {3}"/>', (13, 9, 10, 5)) + ([f"e{i}"], None)
    K["line"] = lambda i, k0: (f'<line id="e{i}" xy1="[[{k0}]] [[{k0 + 1}]]" xy2="[[{k0 + 2}]] [[{k0 + 3}]]"/>', [(3, *POS), (14, *POS), (23 + 30 * i, *POS), (4, *POS)], [f"e{i}"], None)
    K["polyline"] = lambda i, k0: (f'<polyline id="e{i}" points="[[{k0}]] [[{k0 + 1}]] [[{k0 + 2}]],[[{k0 + 3}]] 5 -6"/>', [(3, *POS), (14, *POS), (23, *POS), (4 + 9 * i, *POS)], [f"e{i}"], None)
    K["polygon"] = lambda i, k0: (f'<polygon id="e{i}" points="[[{k0}]],[[{k0 + 1}]] [[{k0 + 2}]],[[{k0 + 3}]] 0,0"/>', [(3, *POS), (14, *POS), (23, *POS), (4 + 9 * i, *POS)], [f"e{i}"], None)
    K["path"] = lambda i, k0: (f'<path id="e{i}" d="M [[{k0}]] [[{k0 + 1}]] l [[{k0 + 2}]] [[{k0 + 3}]] H 20 v -10 z"/>', [(3, *POS), (14, *POS), (23, *POS), (4 + 9 * i, *POS)], [f"e{i}"], None)
    K["text"] = lambda i, k0: (f'<text id="e{i}" xy="[[{k0}]] [[{k0 + 1}]]">hi</text>', [(30 + 11 * i, *POS), (-14, *POS)], [f"e{i}"], None)
    K["box"] = lambda i, k0: four(i, k0, '<box id="b{i}" xy="{0} {1}" wh="{2} {3}"/>', (-30, 40, 20, 10)) + ([], lambda: [G.Box(f"v{k0}", f"v{k0 + 1}", plus(f"v{k0}", f"v{k0 + 2}"), plus(f"v{k0 + 1}", f"v{k0 + 3}"))])
    K["point"] = lambda i, k0: (f'<point xy="[[{k0}]] [[{k0 + 1}]]"/>', [(200, *POS), (-200, *POS)], [], None)
    K["gtrans"] = lambda i, k0: (f'<g id="e{i}" transform="translate([[{k0}]] [[{k0 + 1}]])"><rect xy="[[{k0 + 2}]] 2" wh="[[{k0 + 3}]] 4"/></g>', [(10, *POS), (-20, *POS), (1, *POS), (3, *SZ)], [f"e{i}"], None)
    K["gscale"] = lambda i, k0: four(i, k0, '<g id="e{i}" transform="scale(2)"><rect xy="{0} {1}" wh="{2} {3}"/></g>') + ([f"e{i}"], None)
    K["gscale2"] = lambda i, k0: four(i, k0, '<g id="e{i}" transform="scale(0.5 2)"><circle cxy="{0} {1}" r="{2}"/><rect wh="{3}"/></g>') + ([f"e{i}"], None)
    K["gnest"] = lambda i, k0: four(i, k0, '<g id="e{i}" transform="translate({0} {1})"><g transform="scale(2)"><rect xy="{2} 1" wh="{3} 2"/></g></g>') + ([f"e{i}"], None)
    K["gnest2"] = lambda i, k0: four(i, k0, '<g id="e{i}" transform="scale(2) translate({0}, {1})"><rect xy="{2} 1" wh="{3} 2"/></g>') + ([f"e{i}"], None)
    K["gtrans1"] = lambda i, k0: (f'<g id="e{i}" transform="translate([[{k0}]])"><rect xy="[[{k0 + 1}]] 2" wh="[[{k0 + 2}]] 4"/></g>', [(10, *POS), (1, *POS), (3, *SZ)], [f"e{i}"], None)
    K["gneg"] = lambda i, k0: four(i, k0, '<g id="e{i}" transform="scale(-1 2)"><rect xy="{0} {1}" wh="{2} {3}"/></g>') + ([f"e{i}"], None)
    # group transforms: every combination of unit / non-unit / negative scale factors, alone and with a translation
    def gsc(sx, sy, extra="", post=""):
        tr = f"scale({sx} {sy})" if sy is not None else f"scale({sx})"
        return lambda i, k0: four(i, k0, '<g id="e{i}" transform="' + extra + tr + post + '"><rect xy="{0} {1}" wh="{2} {3}"/></g>') + ([f"e{i}"], None)
    for nm, sx, sy in (("gs-1-3", "1", "3"), ("gs-3-1", "3", "1"), ("gs-1-1", "1", "1"), ("gs-2-2", "2", "2"), ("gs-h", "0.5", None), ("gs-n1", "-1", None), ("gs-1-n2", "1", "-2"), ("gs-n2-1", "-2", "1")):
        K[nm] = gsc(sx, sy)
    K["gs-t-1-3"] = gsc("1", "3", "translate(3 4) ")
    # a translation to the right of a non-uniform scale is scaled axis by axis
    K["gs-1-3-t"] = gsc("1", "3", "", " translate(3 4)")
    K["gs-3-1-t"] = gsc("3", "1", "", " translate(5, 10)")
    K["gs-t-n2-1-t"] = gsc("-2", "1", "translate(1 2) ", " translate(3 4) scale(1 2) translate(0 6)")
    # paths: several sub-paths, closepath followed by relative commands (the current point returns to the sub-path start)
    K["path-zrel"] = lambda i, k0: (f'<path id="e{i}" d="M [[{k0}]] [[{k0 + 1}]] l [[{k0 + 2}]] 0 l 0 [[{k0 + 3}]] z m 5 5 l 10 0"/>', [(3, *POS), (14, *POS), (23, *SZ), (4 + 9 * i, *SZ)], [f"e{i}"], None)
    K["path-zrel2"] = lambda i, k0: (f'<path id="e{i}" d="M [[{k0}]] [[{k0 + 1}]] L [[{k0 + 2}]] [[{k0 + 3}]] Z l 7 9 M 1 2 h 3 z v 4"/>', [(3, *POS), (14, *POS), (23, *POS), (4 + 9 * i, *POS)], [f"e{i}"], None)
    K["path-multi"] = lambda i, k0: (f'<path id="e{i}" d="M [[{k0}]] [[{k0 + 1}]] H [[{k0 + 2}]] V [[{k0 + 3}]] m 1 1 h 2 v 2"/>', [(3, *POS), (14, *POS), (23, *POS), (4 + 9 * i, *POS)], [f"e{i}"], None)
    # clip paths: on a group, and defined after the element that uses them
    K["clip-g"] = lambda i, k0: (f'<defs><clipPath id="c{i}"><rect xy="[[{k0}]] 0" wh="[[{k0 + 1}]] 10"/></clipPath></defs><g id="e{i}" clip-path="url(#c{i})"><rect xy="[[{k0 + 2}]] 5" wh="[[{k0 + 3}]] 20"/></g>',
                                 [(0, *POS), (10, *SZ), (5, *POS), (20, *SZ)], [f"e{i}"], None)
    K["clip-after"] = lambda i, k0: (f'<rect id="e{i}" xy="[[{k0 + 2}]] 5" wh="[[{k0 + 3}]] 20" clip-path="url(#c{i})"/><defs><clipPath id="c{i}"><rect xy="[[{k0}]] 0" wh="[[{k0 + 1}]] 10"/></clipPath></defs>',
                                     [(0, *POS), (10, *SZ), (5, *POS), (20, *SZ)], [f"e{i}"], None)
    K["clip-g-after"] = lambda i, k0: (f'<g id="e{i}" clip-path="url(#c{i})"><rect xy="[[{k0 + 2}]] 5" wh="[[{k0 + 3}]] 20"/></g><defs><clipPath id="c{i}"><rect xy="[[{k0}]] 0" wh="[[{k0 + 1}]] 10"/></clipPath></defs>',
                                       [(0, *POS), (10, *SZ), (5, *POS), (20, *SZ)], [f"e{i}"], None)
    # control elements: what they render counts like anything else (every pass of every loop form)
    K["loop-count"] = lambda i, k0: four(i, k0, '<loop count="3" loop-var="n{i}"><rect class="cnt{i}" xy="{{{{{0} + $n{i} * 7}}}} {1}" wh="{2} {3}"/></loop>') + ([f"@cls:cnt{i}"], None)
    K["loop-until"] = lambda i, k0: four(i, k0, '<var u{i}="0"/><loop until="ge($u{i}, 2)"><rect class="cnt{i}" xy="{{{{{0} + $u{i} * 9}}}} {{{{{1} + $u{i} * 5}}}}" wh="{2} {3}"/><var u{i}="{{{{$u{i} + 1}}}}"/></loop>') + ([f"@cls:cnt{i}"], None)
    K["loop-until1"] = lambda i, k0: four(i, k0, '<loop until="1"><rect class="cnt{i}" xy="{0} {1}" wh="{2} {3}"/></loop>') + ([f"@cls:cnt{i}"], None)
    K["loop-while"] = lambda i, k0: four(i, k0, '<var w{i}="0"/><loop while="lt($w{i}, 2)"><circle class="cnt{i}" cxy="{{{{{0} - $w{i} * 9}}}} {1}" r="{2}"/><var w{i}="{{{{$w{i} + 1}}}}"/></loop>') + ([f"@cls:cnt{i}"], None)
    K["for"] = lambda i, k0: four(i, k0, '<for var="q{i}" data="0, 11, -23"><rect class="cnt{i}" xy="{0} {{{{{1} + $q{i}}}}}" wh="{2} {3}"/></for>') + ([f"@cls:cnt{i}"], None)
    K["if-true"] = lambda i, k0: four(i, k0, '<if test="1"><rect class="cnt{i}" xy="{0} {1}" wh="{2} {3}"/></if>') + ([f"@cls:cnt{i}"], None)
    K["if-false"] = lambda i, k0: four(i, k0, '<if test="0"><rect xy="{0} {1}" wh="{2} {3}"/></if>', (300, 300, 20, 10)) + ([], None)
    K["g-loop"] = lambda i, k0: four(i, k0, '<g id="e{i}" transform="translate({0} {1})"><loop count="2" loop-var="m{i}"><rect xy="{{{{$m{i} * 30}}}} 0" wh="{2} {3}"/></loop></g>') + ([f"e{i}"], None)
    # paths with curves and arcs (the extent is taken over the on-curve points), absolute and relative
    K["path-arc"] = lambda i, k0: (f'<path id="e{i}" d="M [[{k0}]] [[{k0 + 1}]] h [[{k0 + 2}]] a 5 5 0 0 1 5 5 v [[{k0 + 3}]] a 5 5 0 0 1 -5 5 h -10 a 5,5 0 0,1 -5,-5 z"/>', [(3, *POS), (14, *POS), (23, *SZ), (4 + 9 * i, *SZ)], [f"e{i}"], None)
    K["path-curves"] = lambda i, k0: (f'<path id="e{i}" d="M [[{k0}]] [[{k0 + 1}]] c 1 2 3 4 [[{k0 + 2}]] [[{k0 + 3}]] s 1 1 4 -6 q 2 2 -7 3 t 5 5 A 3 3 0 1 0 [[{k0 + 2}]] 9 C 0 0 1 1 [[{k0 + 3}]] -4 S 1 1 2 [[{k0 + 1}]] Q 0 0 -3 -3 T 8 [[{k0}]]"/>',
                                      [(3, *POS), (14, *POS), (23, *POS), (4 + 9 * i, *POS)], [f"e{i}"], None)
    for pj in range(6):
        K[f"path-rand{pj}"] = (lambda pj: lambda i, k0: rand_path(pj, i, k0))(pj)
    K["use-clip"] = lambda i, k0: (f'<defs><clipPath id="uc{i}"><rect xy="[[{k0}]] 0" wh="[[{k0 + 1}]] 30"/></clipPath><rect id="ut{i}" xy="0 2" wh="20 4"/></defs>'
                                   f'<use id="e{i}" href="#ut{i}" x="[[{k0 + 2}]]" y="[[{k0 + 3}]]" clip-path="url(#uc{i})"/>', [(10, *POS), (10, *SZ), (8, *POS), (-3, *POS)], [f"e{i}"], None)
    K["use"] = lambda i, k0: (f'<rect id="t{i}" xy="[[{k0}]] 2" wh="[[{k0 + 1}]] 4"/><use id="e{i}" href="#t{i}" x="[[{k0 + 2}]]" y="[[{k0 + 3}]]"/>',
                              [(1, *POS), (3, *SZ), (40, *POS), (-30, *POS)], [f"t{i}", f"e{i}"], None)
    K["use-x"] = lambda i, k0: (f'<rect id="t{i}" xy="[[{k0}]] 2" wh="[[{k0 + 1}]] 4"/><use id="e{i}" href="#t{i}" x="[[{k0 + 2}]]"/>',
                                [(1, *POS), (3, *SZ), (40, *POS)], [f"t{i}", f"e{i}"], None)
    K["use-y"] = lambda i, k0: (f'<circle id="t{i}" cxy="[[{k0}]] 2" r="[[{k0 + 1}]]"/><use id="e{i}" href="#t{i}" y="[[{k0 + 2}]]"/>',
                                [(1, *POS), (3, *SZ), (40, *POS)], [f"t{i}", f"e{i}"], None)
    K["use-0"] = lambda i, k0: (f'<rect id="t{i}" xy="[[{k0}]] [[{k0 + 2}]]" wh="[[{k0 + 1}]] 4"/><use id="e{i}" href="#t{i}"/>',
                                [(1, *POS), (3, *SZ), (40, *POS)], [f"t{i}", f"e{i}"], None)
    K["usesym"] = lambda i, k0: (f'<symbol id="s{i}"><rect xy="[[{k0}]] 2" wh="[[{k0 + 1}]] 4"/></symbol><use id="e{i}" href="#s{i}" x="[[{k0 + 2}]]" y="[[{k0 + 3}]]"/>',
                                 [(1, *POS), (3, *SZ), (40, *POS), (-30, *POS)], [f"e{i}"], None)
    K["clip"] = lambda i, k0: (f'<defs><clipPath id="c{i}"><rect xy="[[{k0}]] 0" wh="[[{k0 + 1}]] 10"/></clipPath></defs><rect id="e{i}" xy="[[{k0 + 2}]] 5" wh="[[{k0 + 3}]] 20" clip-path="url(#c{i})"/>',
                               [(0, *POS), (10, *SZ), (5, *POS), (20, *SZ)], [f"e{i}"], None)
    K["defs"] = lambda i, k0: (f'<defs><rect xy="[[{k0}]] [[{k0 + 1}]]" wh="50"/></defs>', [(200, *POS), (200, *POS)], [], None)
    K["specs"] = lambda i, k0: (f'<specs><rect id="q{i}" xy="[[{k0}]] [[{k0 + 1}]]" wh="50"/></specs>', [(-200, *POS), (200, *POS)], [], None)
    K["symbol"] = lambda i, k0: (f'<symbol id="y{i}"><rect xy="[[{k0}]] [[{k0 + 1}]]" wh="50"/></symbol>', [(-200, *POS), (-200, *POS)], [], None)
    K["shapetext"] = lambda i, k0: four(i, k0, '<rect id="e{i}" xy="{0} {1}" wh="{2} {3}" text="hi" text-loc="bl" class="d-text-outside"/>') + ([f"e{i}"], None)
    return K


MAIN = ["rect", "circle", "ellipse", "line", "polyline", "polygon", "path", "text", "box", "gtrans", "gscale", "gscale2", "gnest", "gnest2", "gtrans1", "gneg", "gs-1-3", "gs-3-1", "gs-1-1", "gs-2-2", "gs-h", "gs-n1", "gs-1-n2", "gs-n2-1", "gs-t-1-3", "gs-1-3-t", "gs-3-1-t", "gs-t-n2-1-t", "path-zrel", "path-zrel2", "path-multi", "use", "use-clip", "use-x", "use-y", "use-0", "usesym", "clip", "clip-g", "clip-after", "clip-g-after", "shapetext", "loop-count", "loop-until", "loop-until1", "loop-while", "for", "if-true", "g-loop", "path-arc", "path-curves",
        "path-rand0", "path-rand1", "path-rand2", "path-rand3", "path-rand4", "path-rand5"]
NOTHING = ["point", "defs", "specs", "symbol", "if-false"]
ROOTS = ["", 'width="20em"', 'height="3ex"', 'width="200"', 'height="10cm"', 'viewBox="0 0 100 50"', 'width="200" height="10cm"', 'width="30mm" viewBox="1 2 3 4"', 'height="77" viewBox="1 2 3 4"', 'width="1in" height="2in" viewBox="0 0 1 1"']


def templates(tier, seed):
    tds = []
    # single child x border x scale x root attrs
    for k in MAIN:
        for border in (0, 3, 5):
            for scale in ("0.5", "1", "2"):
                tds.append(dict(fam="single", kinds=[k], border=border, scale=scale, root=""))
        for root in ROOTS[1:]:
            tds.append(dict(fam="rootattrs", kinds=[k], border=5, scale="1", root=root))
    # pairs / triples, including the kinds that must add nothing
    for a, b in itertools.permutations(MAIN + NOTHING, 2):
        if a in NOTHING and b in NOTHING:
            continue
        tds.append(dict(fam="pair", kinds=[a, b], border=5, scale="1", root=""))
    rnd = random.Random(1234 + (seed if tier == "quick" else 0))
    allk = MAIN + NOTHING
    for _ in range(400 if tier == "quick" else 2500):
        ks = rnd.sample(allk, 3)
        if all(k in NOTHING for k in ks):
            continue
        tds.append(dict(fam="triple", kinds=ks, border=rnd.choice([0, 3, 5]), scale=rnd.choice(["0.5", "1", "2"]), root=rnd.choice(ROOTS)))
    # documents without a root svg, and content with nothing rendered
    tds.append(dict(fam="fragment", kinds=["rect"], border=5, scale="1", root=None))
    tds.append(dict(fam="empty", kinds=["point"], border=5, scale="1", root=""))
    tds.append(dict(fam="empty", kinds=["defs"], border=5, scale="1", root='width="10"'))
    tds.append(dict(fam="rootextra", kinds=["rect"], border=5, scale="1", root='version="2.0" xmlns:xlink="http://www.w3.org/1999/xlink" id="top"'))
    tds.append(dict(fam="rootextra", kinds=["circle"], border=5, scale="1", root='version="1.2" baseProfile="tiny"'))
    return tds + _with_cfgforms(tds)


def _with_cfgforms(tds):
    out = []
    for i, t in enumerate(tds):
        if (t.get("border") != 5 or t.get("scale") != "1") and i % 6 == 0:
            for cf in ("split", "split-rev", "then-unrelated", "unrelated-first"):
                out.append(dict(t, cfgform=cf))
    return out


def twins(tier, seed):
    return [dict(fam="single", kinds=["rect"], border=3, scale="2", root=""), dict(fam="pair", kinds=["gnest", "point"], border=5, scale="1", root=""),
            dict(fam="rootattrs", kinds=["circle"], border=5, scale="1", root='width="200"')]


def split_unit(s):
    m = re.fullmatch(r"\s*(-?(?:8888\d{6}\.5|\d+(?:\.\d+)?))\s*([a-zA-Z%]*)\s*", s)
    if not m:
        raise KeyError("cannot split number/unit: " + s)
    return m.group(1), m.group(2)


def counted_boxes(o, ids):
    """list of (validity condition, Box) for rendered elements, from the output's own geometry"""
    res = []
    els = []
    for id_ in ids:
        if id_.startswith("@cls:"):
            found = [e for e in o.all if id_[5:] in (e.get("class") or "").split()]
            if not found:
                raise KeyError("no element of class %s in the output" % id_[5:])
            els += found
            continue
        el = o.by_id(id_)
        if el is None:
            raise KeyError("element %s missing from output" % id_)
        els.append(el)
    for el in els:
        tag = o.tag(el)
        if tag == "use":
            tgt = o.by_id(el.get("href").lstrip("#"))
            if tgt is None:
                raise KeyError("use target missing")
            if o.tag(tgt) == "symbol":
                kids = [G.elem_box(o, c) for c in o.children(tgt)]
                tb = G.union([k for k in kids if k is not None])
            else:
                tb = G.elem_box(o, tgt)
            b = tb.translate(o.num(el, "x"), o.num(el, "y"))
        else:
            b = G.elem_box(o, el)
        cond = "true"
        cp = el.get("clip-path")
        if cp:
            cid = re.fullmatch(r"url\(#(.*)\)", cp.strip()).group(1)
            cel = o.by_id(cid)
            kids = [G.elem_box(o, c) for c in o.children(cel)]
            cb = G.union([k for k in kids if k is not None])
            b = G.intersection([b, cb])
            cond = and_(le(b.x1, b.x2), le(b.y1, b.y2))
        res.append((cond, b))
    return res


def build(td, wrong=False):
    K = kinds()
    vars_, parts, ids, vboxes = [], [], [], []
    for i, k in enumerate(td["kinds"]):
        m, vs, cids, vb = K[k](i, len(vars_))
        parts.append(m)
        vars_ += vs
        ids += cids
        if vb:
            vboxes.append(vb)
    cfg = ""
    if td["border"] != 5 or td["scale"] != "1":
        cfg = f'<config border="{td["border"]}" scale="{td["scale"]}"/>'
        # settings may arrive through several <config> elements: each one changes what it names and nothing else
        cf = td.get("cfgform", "one")
        if cf == "split":
            cfg = f'<config border="{td["border"]}"/><config scale="{td["scale"]}"/>'
        elif cf == "split-rev":
            cfg = f'<config scale="{td["scale"]}"/><config border="{td["border"]}"/>'
        elif cf == "then-unrelated":
            cfg = cfg + '<config font-size="4"/><config loop-limit="500"/>'
        elif cf == "unrelated-first":
            cfg = '<config var-limit="2000"/>' + cfg
    root = td["root"]
    if root is None:
        doc = "".join(parts)
    else:
        doc = f"<svg {root}>".replace("<svg >", "<svg>") + cfg + "".join(parts) + "</svg>"
    border = num(td["border"])
    scale = num(Fraction(td["scale"]))
    supplied = dict(re.findall(r'(\w[\w:]*)="([^"]*)"', root or ""))

    def check(r):
        if r.status != "ok":
            return [Obl("transform-ok", FAIL, ground=True, note=r.docs[0]["msg"][:200])]
        o = Out(r.output)
        obls = []
        if root is None:
            # fragment: no root synthesis at all
            return [Obl("fragment-has-no-root", FAIL if (not o.wrapped and o.tag(o.root) == "svg") else PASS, ground=True)]
        rt = o.root
        if o.wrapped or o.tag(rt) != "svg":
            return [Obl("root-is-svg", FAIL, ground=True)]
        # version / namespace added only when missing, author attributes verbatim (ground)
        for a, v in supplied.items():
            if a.startswith("xmlns:"):
                continue
            obls.append(Obl(f"author-{a}-verbatim", PASS if rt.get(a) == v else FAIL, ground=True, note=f"{rt.get(a)!r} vs {v!r}"))
        if "version" not in supplied:
            obls.append(Obl("version-added", PASS if rt.get("version") == "1.1" else FAIL, ground=True))
        obls.append(Obl("namespace-present", PASS if rt.tag.startswith("{http://www.w3.org/2000/svg}") else FAIL, ground=True))
        try:
            cb = counted_boxes(o, ids)
        except KeyError as e:
            return obls + [Obl("geometry-present", FAIL, ground=True, note=str(e))]
        for vb in vboxes:
            cb += [("true", b) for b in vb()]
        if not cb:
            # nothing rendered: no extent, so no viewBox may be synthesised
            obls.append(Obl("no-extent-no-viewBox", PASS if rt.get("viewBox") is None else FAIL, ground=True))
            return obls
        anyvalid = or_(*[c for c, _ in cb])
        x1 = rmin(*[ite(c, b.x1, BIG) for c, b in cb])
        y1 = rmin(*[ite(c, b.y1, BIG) for c, b in cb])
        x2 = rmax(*[ite(c, b.x2, neg(BIG)) for c, b in cb])
        y2 = rmax(*[ite(c, b.y2, neg(BIG)) for c, b in cb])
        X1, Y1 = f"(rfloor {minus(x1, border)})", f"(rfloor {minus(y1, border)})"
        X2, Y2 = f"(rceil {plus(x2, border)})", f"(rceil {plus(y2, border)})"
        W, H = minus(X2, X1), minus(Y2, Y1)
        if wrong:
            W = plus(W, "1.0")
        if "viewBox" not in supplied:
            vb = o.nums(rt, "viewBox")
            if len(vb) != 4:
                # no viewBox synthesised: allowed only when nothing rendered has an extent on this path
                obls.append(Obl("viewBox-present-when-extent", anyvalid, note=str(rt.get("viewBox"))))
            else:
                for name, got, exp in (("viewBox.x", vb[0], X1), ("viewBox.y", vb[1], Y1), ("viewBox.w", vb[2], W), ("viewBox.h", vb[3], H)):
                    obls.append(Obl(name, and_(anyvalid, ne(got, exp))))
        for dim, other, D, Do in (("width", "height", W, H), ("height", "width", H, W)):
            if dim in supplied:
                continue
            val = rt.get(dim)
            if val is None:
                obls.append(Obl(f"{dim}-present-when-extent", anyvalid))
                continue
            n, unit = split_unit(val)
            got = o.tok(n)
            if other in supplied:
                sn, sunit = split_unit(supplied[other])
                obls.append(Obl(f"{dim}-unit-follows-{other}", PASS if unit == sunit else FAIL, ground=True, note=f"{unit} vs {sunit}"))
                # got = supplied * D / Do  (aspect ratio of E); inexact division: tolerance
                s = num(Fraction(sn))
                tol = "(+ 0.002 (* 0.000001 %s))" % s
                cut = ()
                Dq, Doq, guard = D, Do, anyvalid
                # The implementation derives the missing dimension from the ratio of two terms (w/h of its own extent).
                # When that shape is found in the term DAG, the two terms are (i) proved equal to the reference W and H
                # and (ii) abstracted to free positive constants for the remaining algebraic identity got = s*D/Do.
                mt = re.fullmatch(r"t(\d+)", got)
                ratio = None
                if mt and not r.native:
                    ex_, g_, vb_, op_, a_ = r.terms[int(mt.group(1))]
                    if op_ in ("div", "mul") and len(a_) == 2:
                        for cand in a_:
                            ce = r.terms[int(cand)]
                            if ce[3] == "div" and r.terms[int(ce[4][0])][3] != "const" and r.terms[int(ce[4][1])][3] != "const":
                                ratio = (int(ce[4][0]), int(ce[4][1]))
                if ratio:
                    wt, ht = f"t{ratio[0]}", f"t{ratio[1]}"
                    obls.append(Obl(f"{dim}-aspect-uses-extent-w", and_(anyvalid, ne(wt, W))))
                    obls.append(Obl(f"{dim}-aspect-uses-extent-h", and_(anyvalid, ne(ht, H))))
                    Dq, Doq = (wt, ht) if dim == "width" else (ht, wt)
                    cut = ratio
                    guard = "true"
                obls.append(Obl(f"{dim}-from-aspect", and_(guard, gt(Doq, "0.0"), gt(Dq, "0.0"), or_(gt(minus(mul(got, Doq), mul(s, Dq)), mul(tol, Doq)), gt(minus(mul(s, Dq), mul(got, Doq)), mul(tol, Doq)))), mode="real", cut=cut))
            else:
                obls.append(Obl(f"{dim}-unit-mm", PASS if unit == "mm" else FAIL, ground=True, note=unit))
                obls.append(Obl(dim, and_(anyvalid, ne(got, mul(D, scale)))))
        return obls
    name = f"{td['fam']}/{'+'.join(td['kinds'])}/b{td['border']}/s{td['scale']}/{root}" + (f"/{td['cfgform']}" if td.get("cfgform") else "")
    return Template(name, doc, vars_, check, family=td["fam"], role=f"C08/{'+'.join(sorted(set(td['kinds'])))}", cap=12)
