"""C04 Standard SVG content inside svgdx documents is accepted and preserved - numeric half (DESIGN.md §5)."""
import itertools, random, re
from fractions import Fraction
from vlib.engine import *  # noqa
from vlib.twin import compare_outputs
from vlib.harness import sample_quota

PROP = "C04"
LEVEL = "model_checking"
ANCHOR_PREFIXES = ["transform::", "element::", "position::", "path::", "transform_attr::", "types::", "events::", "context::"]
BOUNDS = ("documents in svgdx mode (root <svg> without namespace, or a fragment) built from the SVG 1.1 vocabulary {rect (+rx ry), circle, ellipse, line, polyline, polygon, path with absolute and relative "
          "M L H V C S Q T A Z, text/tspan with x y dx dy, g with transform (translate scale rotate skewX matrix), use, image, nested svg with viewBox, foreignObject, linearGradient/radialGradient + stop, "
          "marker, clipPath, mask, pattern, filter primitives, symbol, a, title/desc, defs}; one symbolic variable per numeric slot (k/2 in [-256,256], sizes k/2 in [0,128]); numbers written as plain, "
          "well-separated decimals; values with units / percentages as concrete strings; nesting <= 3, <= 4 children; plus: partially specified shapes (SVG default-0 coordinates omitted), explicit end tags, every numeric slot independently number / percentage / unit, the SVG-defined geometry attributes of empty non-shape elements (gradients, pattern, mask, filter, filter primitives and light sources, cursor, marker, view), dx/dy on text / tspan / tref / altGlyph / glyphRef / feOffset / feDropShadow, the whole transform vocabulary in its SVG capitalisation; use of centre-defined shapes, partial lines, text forms (transform, coordinate lists, units), points separators, values finer than 1/1000, character data around comments; table-driven documents (quick 120, thorough 2000): element x subset of its SVG attributes x value form {symbolic number, decimal, unit, percentage}, presentation attributes, g / a / defs nesting; clip paths without a computable box on shapes, groups and <use>; ids with non-ASCII letters; <use xlink:href> under a root that declares the prefix; <use> into another document and white-space-only shape content (open findings)")
ASSUMPTIONS = ["the expected output is the input document itself with every placeholder read as its own variable; the root element may gain version/xmlns/width/height/viewBox, a <text> element with character-only "
               "content may gain the d-text class (documented reinterpretation)", "lexical variants of the SVG number grammar (exponents, sign-separated numbers, run-together arc flags, xlink:href) are outside: "
               "symbolic numbers are always printed as plain decimals"]

P = (-256, 256, 1)
S = (0, 128, 1)


class Gen:
    def __init__(self):
        self.vars = []

    def p(self, init=3):
        self.vars.append((init + len(self.vars), *P))
        return f"[[{len(self.vars) - 1}]]"

    def s(self, init=5):
        self.vars.append((init + len(self.vars) % 7, *S))
        return f"[[{len(self.vars) - 1}]]"


def el_rect(g):
    return f'<rect x="{g.p()}" y="{g.p()}" width="{g.s()}" height="{g.s()}" rx="{g.s(1)}" ry="2" fill="none" stroke-width="{g.s(1)}"/>'


def el_rect0(g):
    return f'<rect width="{g.s()}" height="{g.s()}"/>'


def el_circle(g):
    return f'<circle cx="{g.p()}" cy="{g.p()}" r="{g.s()}" opacity="0.5"/>'


def el_ellipse(g):
    return f'<ellipse cx="{g.p()}" cy="{g.p()}" rx="{g.s()}" ry="{g.s()}"/>'


def el_line(g):
    return f'<line x1="{g.p()}" y1="{g.p()}" x2="{g.p()}" y2="{g.p()}" stroke="black"/>'


def el_polyline(g):
    return f'<polyline points="{g.p()},{g.p()} {g.p()},{g.p()} {g.p()} {g.p()}" fill="none"/>'


def el_polygon(g):
    return f'<polygon points="{g.p()} {g.p()}, {g.p()} {g.p()}, 0 0"/>'


def el_path_abs(g):
    return f'<path d="M {g.p()} {g.p()} L {g.p()} {g.p()} H {g.p()} V {g.p()} C {g.p()} {g.p()}, {g.p()} {g.p()}, {g.p()} {g.p()} S {g.p()} {g.p()} {g.p()} {g.p()} Z"/>'


def el_path_rel(g):
    return f'<path d="m {g.p()} {g.p()} l {g.p()} {g.p()} h {g.p()} v {g.p()} q {g.p()} {g.p()} {g.p()} {g.p()} t {g.p()} {g.p()} a {g.s()} {g.s()} 0 0 1 {g.p()} {g.p()} z"/>'


def el_path_arc(g):
    return f'<path d="M {g.p()},{g.p()} A {g.s()},{g.s()} 30 1,0 {g.p()},{g.p()} Q {g.p()},{g.p()} {g.p()},{g.p()}" stroke-dasharray="{g.s(1)} 2"/>'


def el_text(g):
    return f'<text x="{g.p()}" y="{g.p()}" font-size="{g.s(3)}">hello</text>'


def el_text_tspan(g):
    return f'<text x="{g.p()}" y="{g.p()}"><tspan x="{g.p()}" dy="{g.p()}">a</tspan><tspan dx="{g.p()}" y="{g.p()}">b</tspan></text>'


def el_g(g, inner):
    return f'<g transform="translate({g.p()} {g.p()}) scale(2)" opacity="0.5">{inner}</g>'


def el_g2(g, inner):
    return f'<g transform="rotate({g.p()}, {g.p()}, {g.p()}) skewX({g.p()})">{inner}</g>'


def el_g3(g, inner):
    return f'<g transform="matrix({g.p()} {g.p()} {g.p()} {g.p()} {g.p()} {g.p()})">{inner}</g>'


def el_use(g):
    return f'<defs><rect id="u1" width="{g.s()}" height="{g.s()}"/></defs><use href="#u1" x="{g.p()}" y="{g.p()}"/>'


def el_image(g):
    return f'<image href="a.png" x="{g.p()}" y="{g.p()}" width="{g.s()}" height="{g.s()}" preserveAspectRatio="none"/>'


def el_svg(g, inner):
    return f'<svg x="{g.p()}" y="{g.p()}" width="{g.s()}" height="{g.s()}" viewBox="0 0 {g.s()} {g.s()}">{inner}</svg>'


def el_foreign(g):
    return f'<foreignObject x="{g.p()}" y="{g.p()}" width="{g.s()}" height="{g.s()}"><p>para</p></foreignObject>'


def el_lingrad(g):
    return (f'<defs><linearGradient id="lg" x1="{g.p()}" y1="{g.p()}" x2="{g.p()}" y2="{g.p()}" gradientUnits="userSpaceOnUse"><stop offset="0" stop-color="red"/>'
            f'<stop offset="{g.s(1)}" stop-opacity="0.5"/></linearGradient></defs><rect width="{g.s()}" height="{g.s()}" fill="url(#lg)"/>')


def el_radgrad(g):
    return f'<defs><radialGradient id="rg" cx="{g.p()}" cy="{g.p()}" r="{g.s()}" fx="{g.p()}" fy="{g.p()}"><stop offset="50%" stop-color="blue"/></radialGradient></defs>'


def el_marker(g):
    return (f'<defs><marker id="mk" refX="{g.p()}" refY="{g.p()}" markerWidth="{g.s()}" markerHeight="{g.s()}" orient="auto"><path d="M 0 0 L {g.p()} {g.p()} z"/></marker></defs>'
            f'<line x1="{g.p()}" y1="{g.p()}" x2="{g.p()}" y2="{g.p()}" marker-end="url(#mk)"/>')


def el_clip(g):
    return f'<defs><clipPath id="cl"><circle cx="{g.p()}" cy="{g.p()}" r="{g.s()}"/></clipPath></defs><rect x="{g.p()}" y="{g.p()}" width="{g.s()}" height="{g.s()}" clip-path="url(#cl)"/>'


def el_mask(g):
    return f'<defs><mask id="ma" x="{g.p()}" y="{g.p()}" width="{g.s()}" height="{g.s()}"><rect width="100%" height="100%" fill="white"/></mask></defs>'


def el_pattern(g):
    return f'<defs><pattern id="pa" x="{g.p()}" y="{g.p()}" width="{g.s()}" height="{g.s()}" patternUnits="userSpaceOnUse"><circle cx="{g.p()}" cy="{g.p()}" r="{g.s()}"/></pattern></defs>'


def el_filter(g):
    return (f'<defs><filter id="fi" x="-20%" y="-20%" width="140%" height="140%"><feOffset dx="{g.p()}" dy="{g.p()}"/><feGaussianBlur stdDeviation="{g.s(1)}"/>'
            f'<feComponentTransfer><feFuncA type="linear" slope="{g.s(1)}"/></feComponentTransfer></filter></defs><rect width="{g.s()}" height="{g.s()}" filter="url(#fi)"/>')


def el_symbol(g):
    return f'<symbol id="sy" viewBox="0 0 {g.s()} {g.s()}"><rect width="{g.s()}" height="{g.s()}"/></symbol><use href="#sy" x="{g.p()}" y="{g.p()}" width="{g.s()}" height="{g.s()}"/>'


def el_a(g, inner):
    return f'<a href="http://example.com/">{inner}</a>'


def el_title(g):
    return f'<title>A title</title><desc>desc</desc><rect width="{g.s()}" height="{g.s()}"/>'


def el_units(g):
    return f'<rect x="10mm" y="5%" width="2cm" height="50%"/><circle cx="1in" cy="{g.p()}" r="3pt"/><line x1="1em" y1="{g.p()}" x2="100%" y2="{g.p()}"/>'


def el_style(g):
    return f'<style>rect {{ fill: red; }}</style><rect x="{g.p()}" y="{g.p()}" width="{g.s()}" height="{g.s()}" style="stroke-width: 2"/>'


def el_partial(g):
    # SVG defaults: a missing coordinate is 0 and must stay missing
    return (f'<ellipse cx="{g.p()}" rx="{g.s()}" ry="{g.s()}"/><ellipse cy="{g.p()}" rx="{g.s()}" ry="{g.s()}"/><circle cx="{g.p()}" r="{g.s()}"/><circle cy="{g.p()}" r="{g.s()}"/>'
            f'<rect x="{g.p()}" width="{g.s()}" height="{g.s()}"/><rect y="{g.p()}" width="{g.s()}" height="{g.s()}"/><circle r="{g.s()}"/><ellipse rx="{g.s()}" ry="{g.s()}"/>')


def el_openclose(g):
    # the same elements serialised with an explicit end tag and no content
    return (f'<rect x="{g.p()}" y="{g.p()}" width="{g.s()}" height="{g.s()}"></rect><circle cx="{g.p()}" cy="{g.p()}" r="{g.s()}"></circle>'
            f'<path d="M {g.p()} {g.p()} L {g.p()} {g.p()}"></path><line x1="{g.p()}" y1="{g.p()}" x2="{g.p()}" y2="{g.p()}"></line>'
            f'<defs><linearGradient id="lg2"><stop offset="{g.s(1)}"></stop></linearGradient><clipPath id="cl2"></clipPath></defs><g></g><polyline points="{g.p()} {g.p()} 1 2"></polyline>')


def el_use_partial(g):
    return f'<defs><rect id="u2" width="{g.s()}" height="{g.s()}"/></defs><use href="#u2" x="{g.p()}"/><use href="#u2" y="{g.p()}"/><use href="#u2"/>'


def el_mixed_units(g):
    # every numeric slot of an element may independently be a plain number, a percentage or a length with unit
    return (f'<circle cx="50%" cy="{g.p()}" r="{g.s()}"/><circle cx="{g.p()}" cy="10mm" r="{g.s()}"/><ellipse cx="{g.p()}" cy="25%" rx="{g.s()}" ry="{g.s()}"/>'
            f'<ellipse cx="1cm" cy="{g.p()}" rx="{g.s()}" ry="2mm"/><rect x="5%" y="{g.p()}" width="{g.s()}" height="{g.s()}"/><rect x="{g.p()}" y="{g.p()}" width="50%" height="{g.s()}"/>'
            f'<line x1="{g.p()}" y1="10%" x2="{g.p()}" y2="{g.p()}"/><circle cx="{g.p()}" cy="{g.p()}" r="5%"/><image href="a.png" x="{g.p()}" y="1em" width="{g.s()}" height="{g.s()}"/>')


def el_nonshape_attrs(g):
    # elements svgdx does not lay out keep the geometry attributes SVG 1.1 defines for them, verbatim - also when written as
    # empty elements carrying a complete numeric extent (gradient vector, filter / primitive subregion, pattern tile, mask region)
    return ('<defs>'
            f'<linearGradient id="ns0" x1="{g.p()}" y1="{g.p()}" x2="{g.p()}" y2="{g.p()}" href="#ns1"/>'
            f'<linearGradient id="ns0b" x1="0" y1="0" x2="1" y2="0"/>'
            f'<radialGradient id="ns1" cx="{g.p()}" cy="{g.p()}" r="{g.s()}" fx="{g.p()}" fy="{g.p()}"/>'
            f'<pattern id="ns2" x="{g.p()}" y="{g.p()}" width="{g.s()}" height="{g.s()}" href="#ns2b"/>'
            f'<mask id="ns3" x="{g.p()}" y="{g.p()}" width="{g.s()}" height="{g.s()}"/>'
            f'<filter id="ns4" x="{g.p()}" y="{g.p()}" width="{g.s()}" height="{g.s()}" href="#ns4b"/>'
            f'<filter id="ns4b"><feOffset x="{g.p()}" y="{g.p()}" width="{g.s()}" height="{g.s()}" dx="{g.p()}" dy="{g.p()}" in="SourceGraphic"/>'
            f'<feFlood x="{g.p()}" y="{g.p()}" width="{g.s()}" height="{g.s()}" flood-color="red"/>'
            f'<feGaussianBlur x="{g.p()}" y="{g.p()}" width="{g.s()}" height="{g.s()}" stdDeviation="{g.s(1)}"/>'
            f'<feImage x="{g.p()}" y="{g.p()}" width="{g.s()}" height="{g.s()}" href="a.png"/>'
            f'<feOffset dx="{g.p()}" dy="{g.p()}"/>'
            f'<feDiffuseLighting><fePointLight x="{g.p()}" y="{g.p()}" z="{g.p()}"/></feDiffuseLighting>'
            f'<feSpecularLighting><feSpotLight x="{g.p()}" y="{g.p()}" z="{g.p()}" pointsAtX="{g.p()}" pointsAtY="{g.p()}" pointsAtZ="0"/></feSpecularLighting></filter>'
            f'<cursor id="ns5" x="{g.p()}" y="{g.p()}" href="c.png"/>'
            f'<marker id="ns6" refX="{g.p()}" refY="{g.p()}" markerWidth="{g.s()}" markerHeight="{g.s()}"/>'
            f'<view id="ns7" viewBox="{g.p()} {g.p()} {g.s()} {g.s()}"/>'
            '</defs>')


def el_text_dx_carriers(g):
    # dx / dy are SVG attributes of the text content elements (text, tspan, tref, altGlyph, glyphRef) and of feOffset / feDropShadow
    return (f'<defs><text id="tr0" x="0" y="0">ref</text><altGlyphDef id="gl"><glyphRef href="#g1" dx="{g.p()}" dy="{g.p()}"/><glyphRef href="#g1" x="{g.p()}" y="{g.p()}" dx="{g.p()}" dy="{g.p()}"/></altGlyphDef>'
            f'<filter id="ds"><feDropShadow dx="{g.p()}" dy="{g.p()}" stdDeviation="1"/><feDropShadow x="{g.p()}" y="{g.p()}" width="{g.s()}" height="{g.s()}" dx="{g.p()}" dy="{g.p()}"/></filter></defs><text x="{g.p()}" y="{g.p()}" dx="{g.p()}" dy="{g.p()}">a<tspan dx="{g.p()}" dy="{g.p()}">b</tspan>'
            f'<tref href="#tr0" dx="{g.p()}" dy="{g.p()}"/><altGlyph href="#gl" x="{g.p()}" y="{g.p()}" dx="{g.p()}" dy="{g.p()}">c</altGlyph></text>')


def el_use_centred(g):
    # <use> of a shape that is defined by its centre: x / y are a plain translation
    return (f'<defs><circle id="uc" cx="{g.p()}" cy="{g.p()}" r="{g.s()}"/><ellipse id="ue" cx="{g.p()}" cy="{g.p()}" rx="{g.s()}" ry="{g.s()}"/></defs>'
            f'<use href="#uc" x="{g.p()}" y="{g.p()}"/><use href="#ue" x="{g.p()}" y="{g.p()}"/>')


def el_line_partial(g):
    # omitted line coordinates are 0 in SVG
    return f'<line x1="{g.p()}" y1="{g.p()}" x2="{g.p()}"/><line x1="{g.p()}" x2="{g.p()}"/><line y2="{g.p()}"/><line x2="{g.p()}" y2="{g.p()}"/>'


def el_text_forms(g):
    # text with a transform of its own, and text positioned by coordinate lists / units / percentages
    return (f'<text x="{g.p()}" y="{g.p()}" transform="translate({g.p()} {g.p()})">moved</text><text x="{g.p()}" y="{g.p()}" transform="rotate(30)">turned</text>'
            f'<text x="1 2 3" y="4">abc</text><text x="5%" y="1em">pct</text><text x="{g.p()}" y="{g.p()}" rotate="10 20">r</text><text x="{g.p()}" y="{g.p()}" dx="1 2" dy="3">d</text>')


def el_points_ws(g):
    # any white space (also a lone tab or line break) and / or a comma separates numbers in a points list
    return (f'<polyline points="{g.p()},{g.p()}\n{g.p()},{g.p()}\n{g.p()},{g.p()}"/><polygon points="{g.p()} {g.p()}\t{g.p()} {g.p()}\r\n{g.p()} {g.p()}"/>'
            f'<polyline points="{g.p()}\t{g.p()}\t{g.p()}\t{g.p()}"/><polyline points=" {g.p()} , {g.p()} , {g.p()} , {g.p()} "/>')


def el_fine_decimals(g):
    # values that are not multiples of 1/1000: the output may round them to 3 decimals, nothing more
    return ('<rect x="19.9996" y="30.0003" width="99.9997" height="10.0004"/><circle cx="20.0004" cy="29.9996" r="100.0002"/><ellipse cx="99.9997" cy="0.0004" rx="9.9996" ry="40.00049"/>'
            '<line x1="1000.0003" y1="-19.9996" x2="-30.0004" y2="0.12345"/><use href="#fd" x="69.9996" y="-0.0004"/><image href="a.png" x="50.0001" y="60.0002" width="70.0003" height="79.9997"/>'
            '<defs><rect id="fd" width="1" height="1"/></defs><rect x="1.23456" y="7.00049" width="2.9995" height="3.0005"/>')


def el_comment_text(g):
    # character data around comments and child elements stays where it is
    return (f'<text x="{g.p()}" y="{g.p()}">one<!-- note -->two<tspan dy="{g.p()}">three</tspan>four</text><desc>alpha<!-- c -->beta</desc>'
            f'<g><!-- lead --><title>t1</title><rect width="{g.s()}" height="{g.s()}"/><!-- trail --></g><text x="{g.p()}" y="{g.p()}"><tspan>a</tspan> b <tspan>c</tspan></text>')


def el_clip_values(g):
    # the clip-path property takes url(#id), none and basic shapes; the root <svg> keeps its class; <use> of a target sized
    # by a percentage or a length with unit
    return (f'<rect x="{g.p()}" y="{g.p()}" width="{g.s()}" height="{g.s()}" clip-path="none"/><circle cx="{g.p()}" cy="{g.p()}" r="{g.s()}" clip-path="circle(40%)"/>'
            f'<g clip-path="none"><rect width="{g.s()}" height="{g.s()}"/></g><defs><rect id="pct" width="50%" height="{g.s()}"/><rect id="unit" width="{g.s()}" height="2cm"/></defs>'
            f'<use href="#pct" x="{g.p()}" y="{g.p()}"/><use href="#unit" x="{g.p()}"/>')


def el_clip_nobox(g):
    # a clip path whose content has no computable box (percentages, units, nothing at all) clips shapes, groups and text alike
    return (f'<defs><clipPath id="cpp"><rect width="100%" height="50%"/></clipPath><clipPath id="cpe"></clipPath><clipPath id="cpu"><circle cx="1cm" cy="1cm" r="5mm"/></clipPath></defs>'
            f'<rect x="{g.p()}" y="{g.p()}" width="{g.s()}" height="{g.s()}" clip-path="url(#cpp)"/><circle cx="{g.p()}" cy="{g.p()}" r="{g.s()}" clip-path="url(#cpe)"/>'
            f'<ellipse cx="{g.p()}" cy="{g.p()}" rx="{g.s()}" ry="{g.s()}" clip-path="url(#cpu)"/><line x1="{g.p()}" y1="{g.p()}" x2="{g.p()}" y2="{g.p()}" clip-path="url(#cpp)"/>'
            f'<g clip-path="url(#cpp)"><rect width="{g.s()}" height="{g.s()}"/></g><use href="#cpt" x="{g.p()}" y="{g.p()}" clip-path="url(#cpu)"/><defs><rect id="cpt" width="{g.s()}" height="{g.s()}"/></defs>')


def el_ids_unicode(g):
    # ids are XML names: letters of any script
    return (f'<defs><rect id="größe" width="{g.s()}" height="{g.s()}"/><rect id="слой-2" width="{g.s()}" height="{g.s()}"/><clipPath id="图标"><rect width="{g.s()}" height="{g.s()}"/></clipPath></defs>'
            f'<use href="#größe" x="{g.p()}" y="{g.p()}"/><use href="#слой-2" x="{g.p()}"/><rect id="é1" x="{g.p()}" y="{g.p()}" width="{g.s()}" height="{g.s()}" clip-path="url(#图标)"/>')


def el_use_xlink(g):
    # SVG 1.1 spells the reference of a <use> xlink:href (the root declares the prefix)
    return (f'<defs><rect id="xl" width="{g.s()}" height="{g.s()}"/></defs><use xlink:href="#xl" x="{g.p()}" y="{g.p()}"/><use xlink:href="#xl"/>'
            f'<g><use x="{g.p()}" xlink:href="#xl" y="{g.p()}" width="{g.s()}" height="{g.s()}"/></g>')


def el_use_external(g):
    # a <use> may refer into another document
    return f'<rect x="{g.p()}" y="{g.p()}" width="{g.s()}" height="{g.s()}"/><use href="other.svg#frag" x="{g.p()}" y="{g.p()}"/>'


def el_ws_content(g):
    # white space between the tags of a shape is not text
    return f'<rect x="{g.p()}" y="{g.p()}" width="{g.s()}" height="{g.s()}">\n</rect><circle cx="{g.p()}" cy="{g.p()}" r="{g.s()}"> </circle>'


def el_transform_ws(g):
    # white space (line breaks included) and commas may surround and separate the items of a transform list
    return (f'<rect width="{g.s()}" height="{g.s()}" transform="translate({g.p()},{g.p()}) "/><rect width="{g.s()}" height="{g.s()}" transform=" rotate({g.p()})"/>'
            f'<g transform="translate({g.p()} {g.p()})\n scale(2)\n"><rect width="{g.s()}" height="{g.s()}"/></g><circle r="{g.s()}" transform="translate({g.p()}) , scale({g.s()})"/>'
            f'<rect width="{g.s()}" height="{g.s()}" transform="translate( {g.p()} , {g.p()} )"/><rect width="{g.s()}" height="{g.s()}" transform="scale({g.s()})\t"/>')


def el_transforms(g):
    # the whole SVG 1.1 transform vocabulary, in its documented capitalisation, alone and in lists
    return (f'<rect width="{g.s()}" height="{g.s()}" transform="skewX({g.p()})"/><rect width="{g.s()}" height="{g.s()}" transform="skewY({g.p()}) translate({g.p()})"/>'
            f'<circle r="{g.s()}" transform="rotate({g.p()})"/><path d="M 0 0 L {g.p()} {g.p()}" transform="matrix(1 0 0 1 {g.p()} {g.p()}) scale({g.s()}, {g.s()})"/>'
            f'<g transform="translate({g.p()},{g.p()}) rotate({g.p()} {g.p()} {g.p()})"><line x1="0" y1="0" x2="{g.p()}" y2="{g.p()}" transform="scale({g.s()})"/></g>'
            f'<text x="{g.p()}" y="{g.p()}" transform="rotate({g.p()})">t</text><use href="#trf" x="{g.p()}" y="{g.p()}" transform="skewX({g.p()})"/><defs><rect id="trf" width="1" height="1"/></defs>')


LEAF = {"use-xlink": el_use_xlink, "use-external": el_use_external, "ws-content": el_ws_content, "clip-values": el_clip_values, "clip-nobox": el_clip_nobox, "ids-unicode": el_ids_unicode, "transform-ws": el_transform_ws, "use-centred": el_use_centred, "line-partial": el_line_partial, "text-forms": el_text_forms, "points-ws": el_points_ws, "fine-decimals": el_fine_decimals, "comment-text": el_comment_text, "mixed-units": el_mixed_units, "nonshape-attrs": el_nonshape_attrs, "text-dx-carriers": el_text_dx_carriers, "transforms": el_transforms, "partial": el_partial, "openclose": el_openclose, "use-partial": el_use_partial, "rect": el_rect, "rect0": el_rect0, "circle": el_circle, "ellipse": el_ellipse, "line": el_line, "polyline": el_polyline, "polygon": el_polygon, "path-abs": el_path_abs,
        "path-rel": el_path_rel, "path-arc": el_path_arc, "text": el_text, "text-tspan": el_text_tspan, "use": el_use, "image": el_image, "foreignObject": el_foreign,
        "linearGradient": el_lingrad, "radialGradient": el_radgrad, "marker": el_marker, "clipPath": el_clip, "mask": el_mask, "pattern": el_pattern, "filter": el_filter, "symbol": el_symbol,
        "title": el_title, "units": el_units, "style": el_style}
WRAP = {"g": el_g, "g-rotate": el_g2, "g-matrix": el_g3, "svg": el_svg, "a": el_a}


# ---- table-driven documents: element x subset of its SVG attributes x value form
# (p: position-like, s: size-like value; '*' marks attributes that are always written, because their omission runs into an open finding
#  or into the documented reinterpretation of text)
SVG_TABLE = {
    "rect": ["x:p", "y:p", "width:s", "height:s", "rx:s", "ry:s"], "circle": ["cx:p", "cy:p", "r:s"], "ellipse": ["cx:p", "cy:p", "rx:s", "ry:s"],
    "line": ["x1:p*", "y1:p*", "x2:p*", "y2:p*"], "image": ["x:p", "y:p", "width:s", "height:s"], "use": ["x:p", "y:p", "width:s", "height:s"],
    "foreignObject": ["x:p", "y:p", "width:s", "height:s"], "text": ["x:p*", "y:p*", "dx:p", "dy:p", "rotate:p", "textLength:s"],
    "linearGradient": ["x1:p", "y1:p", "x2:p", "y2:p"], "radialGradient": ["cx:p", "cy:p", "r:s", "fx:p", "fy:p"], "pattern": ["x:p", "y:p", "width:s", "height:s"],
    "mask": ["x:p", "y:p", "width:s", "height:s"], "filter": ["x:p", "y:p", "width:s", "height:s"], "feFlood": ["x:p", "y:p", "width:s", "height:s"],
    "feOffset": ["x:p", "y:p", "width:s", "height:s", "dx:p", "dy:p"], "marker": ["refX:p", "refY:p", "markerWidth:s", "markerHeight:s"],
    "polyline": ["points:P*"], "polygon": ["points:P*"], "path": ["d:D*"], "svg": ["x:p", "y:p", "width:s", "height:s"],
}
PRESENTATION = ["stroke-width:s", "opacity:o", "font-size:s", "stroke-dasharray:L", "transform:T", "fill-opacity:o", "stroke-miterlimit:s"]


def sys_doc(gseed, g):
    rnd = random.Random(55000 + gseed)

    def value(kind):
        if kind == "P":
            return " ".join(f"{g.p()}{rnd.choice([',', ' '])}{g.p()}" for _ in range(rnd.randint(2, 4)))
        if kind == "D":
            return f"M {g.p()} {g.p()} " + " ".join(rnd.choice([f"L {g.p()} {g.p()}", f"h {g.p()}", f"v {g.p()}", f"q 1 2 {g.p()} {g.p()}", "z", f"l {g.p()} 3", f"H {g.p()}", f"a 3 2 0 0 1 {g.p()} {g.p()}"]) for _ in range(rnd.randint(2, 5)))
        if kind == "o":
            return rnd.choice(["0.5", "1", "0.25", "0"])
        if kind == "L":
            return f"{g.s(1)} {rnd.choice(['2', '1.5'])}"
        if kind == "T":
            return rnd.choice([f"translate({g.p()} {g.p()})", f"rotate({g.p()})", f"scale({g.s()})", f"matrix(1 0 0 1 {g.p()} {g.p()})", f"skewX({g.p()})", f"translate({g.p()},{g.p()}) scale(2)"])
        form = rnd.random()
        if form < 0.72:
            return g.p() if kind == "p" else g.s()
        if form < 0.82:
            return rnd.choice(["12.5", "0.125", "7.0625", "100", "0", "3.75"])
        if form < 0.91:
            return rnd.choice(["10mm", "2em", "1.5cm", "12px", "3pt", "0.5in"])
        return rnd.choice(["50%", "100%", "12.5%", "0%"])

    def element(depth):
        name = rnd.choice(list(SVG_TABLE) + ["g", "g", "a", "defs"])
        if name in ("g", "a", "defs") and depth < 2:
            inner = "".join(element(depth + 1) for _ in range(rnd.randint(1, 3)))
            extra = f' transform="{value("T")}"' if name == "g" and rnd.random() < 0.5 else (' href="#x"' if name == "a" else "")
            return f"<{name}{extra}>{inner}</{name}>"
        if name in ("g", "a", "defs"):
            name = "rect"
        attrs = []
        if name in ("use", "image"):
            attrs.append('href="#sysr"' if name == "use" else 'href="a.png"')
        for spec in SVG_TABLE[name]:
            an, kind = spec.split(":")
            must = kind.endswith("*")
            kind = kind.rstrip("*")
            if must or rnd.random() < 0.7:
                attrs.append(f'{an}="{value(kind)}"')
        for spec in rnd.sample(PRESENTATION, rnd.randint(0, 2)):
            an, kind = spec.split(":")
            if an == "transform" and name in ("text", "linearGradient", "radialGradient", "pattern", "mask", "filter", "feFlood", "feOffset", "marker", "svg", "use"):
                continue
            attrs.append(f'{an}="{value(kind)}"')
        rnd.shuffle(attrs)
        if name == "text":
            return f"<text {' '.join(attrs)}>label</text>"
        if name == "svg":
            return f"<svg {' '.join(attrs)}><rect width=\"1\" height=\"1\"/></svg>"
        if name in ("linearGradient", "radialGradient") and rnd.random() < 0.5:
            return f"<{name} {' '.join(attrs)}><stop offset=\"0\"/><stop offset=\"{value('o')}\"/></{name}>"
        if rnd.random() < 0.15:
            return f"<{name} {' '.join(attrs)}></{name}>"
        return f"<{name} {' '.join(attrs)}/>"
    return '<defs><rect id="sysr" width="2" height="3"/></defs>' + "".join(element(0) for _ in range(rnd.randint(3, 6)))


def templates(tier, seed):
    tds = []
    for gi in range(120 if tier == "quick" else 2000):
        tds.append(dict(fam="sys", items=[], gseed=gi + 10000 * seed, root=("fragment" if gi % 7 == 3 else "svg")))
    for k in LEAF:
        tds.append(dict(fam="leaf", items=[k], root="svg"))
        tds.append(dict(fam="leaf", items=[k], root="svg-class"))
        tds.append(dict(fam="leaf", items=[k], root="fragment"))
        for w in WRAP:
            tds.append(dict(fam="wrapped", items=[k], wrap=[w], root="svg"))
    rnd = random.Random(77 + (seed if tier == "quick" else 0))
    names = [n for n in LEAF if n not in ("use-centred", "line-partial")]      # (kinds with an open finding stay out of the mixes: their role would hide the rest)
    for i in range(200 if tier == "quick" else 1200):
        items = rnd.sample(names, rnd.randint(2, 4))
        wraps = [rnd.choice(list(WRAP)) for _ in range(rnd.randint(0, 2))]
        tds.append(dict(fam="mixed", items=items, wrap=wraps, root=rnd.choice(["svg", "svg", "fragment", "svg-attrs", "svg-class"])))
    return tds


def twins(tier, seed):
    return [dict(fam="leaf", items=["circle"], root="svg"), dict(fam="wrapped", items=["path-rel"], wrap=["g"], root="svg")]


def build(td, wrong=False):
    g = Gen()
    inner = sys_doc(td["gseed"], g) if td["fam"] == "sys" else "".join(LEAF[k](g) for k in td["items"])
    # ids must stay unique when a generator is used twice
    for w in td.get("wrap", []):
        inner = WRAP[w](g, inner)
    if "use-xlink" in td["items"]:
        doc = f'<svg xmlns:xlink="http://www.w3.org/1999/xlink">{inner}</svg>'
    elif td["root"] == "fragment":
        doc = inner
    elif td["root"] == "svg-attrs":
        doc = f'<svg width="200" height="100" viewBox="0 0 200 100">{inner}</svg>'
    elif td["root"] == "svg-class":
        doc = f'<svg class="diagram big" id="top" data-k="1" preserveAspectRatio="xMidYMid">{inner}</svg>'
    else:
        doc = f"<svg>{inner}</svg>"
    nvars = len(g.vars)
    # expected output: the input itself, each placeholder read as the token of its variable (variable k is term k+1)
    expected = re.sub(r"\[\[(\d+)\]\]", lambda m: "8888%06d.5" % (int(m.group(1)) + 1), doc)

    def check(r):
        if r.status != "ok":
            return [Obl("plain-svg-accepted", FAIL, ground=True, note=r.docs[0]["msg"][:200])]
        o = Out(r.output)
        if r.native:
            # on the real build the expected document is the concrete input
            exp_doc = doc
            for k in reversed(range(nvars)):
                exp_doc = exp_doc.replace(f"[[{k}]]", frac_str(Fraction(r.vars[k][3])))
            e = Out(exp_doc)
        else:
            e = Out(expected)
        # documented reinterpretation: <text> with character-only content is re-emitted as generated text (d-text class added)
        for t in o.by_tag("text"):
            cls = [c for c in (t.get("class") or "").split() if c != "d-text"]
            if cls:
                t.set("class", " ".join(cls))
            elif "class" in t.attrib:
                del t.attrib["class"]
        obls = []
        rooted = doc.startswith("<svg") and doc.endswith("</svg>") and e.tag(e.root) == "svg" and not e.wrapped
        if rooted:
            # root: author attributes kept, only version/xmlns/width/height/viewBox may be added
            ro, re_ = o.root, e.root
            added = set(ro.attrib) - set(re_.attrib)
            obls.append(Obl("root-additions-only-documented", PASS if added <= {"version", "width", "height", "viewBox"} else FAIL, ground=True, note=str(sorted(added))))
            for a, v in re_.attrib.items():
                obls.append(Obl(f"root.{a}-verbatim", PASS if ro.get(a) == v else FAIL, ground=True, note=f"{ro.get(a)!r} vs {v!r}"))
        obls += compare_outputs(o, e, wrong=wrong, skip_root=rooted, ground_tol=Fraction(501, 1000000))
        return obls
    name = f"{td['fam']}/{'+'.join(td['items'])}/{'+'.join(td.get('wrap', []))}/{td['root']}" + (f"/{td['gseed']}" if td["fam"] == "sys" else "")
    role = "C04/" + td["fam"]
    if not doc.startswith("<svg") and "<svg" in doc:
        role = "C04/nested-svg-in-fragment"     # role signature for known-finding matching
    elif "use-centred" in td["items"]:
        role = "C04/use-of-centred-shape"
    elif "line-partial" in td["items"]:
        role = "C04/line-single-coordinate"
    elif "use-external" in td["items"]:
        role = "C04/use-external-reference"
    elif "ws-content" in td["items"]:
        role = "C04/whitespace-only-content"
    return Template(name, doc, g.vars, check, family=td["fam"], role=role, cap=6)
