"""C12 Containment: surround encloses, inside is enclosed (DESIGN.md §5, Appendix A)."""
import re, itertools, random
from fractions import Fraction
from vlib.engine import *  # noqa
from vlib import geom as G
from vlib.harness import sample_quota

PROP = "C12"
LEVEL = "model_checking"
ANCHOR_PREFIXES = ["element::SvgElement::handle_containment", "element::SvgElement::inscribed_bbox", "element::SvgElement::position_from_bbox", "position::BoundingBox", "position::TrblLength",
                   "position::Length", "position::strp_length", "context::"]
BOUNDS = ("container in {rect, circle, ellipse}; surround / inside lists of 1-3 references (inside: also three references of different kinds) to {rect, circle, ellipse, line, g, another surround, a circle / ellipse / rect that leaves a centre or corner coordinate to its SVG default, a group whose content waits for a later element}; margin with 0-4 values, absolute symbolic "
          "(either sign for rect containers, >= 0 for circle/ellipse) or percent in {25%, 50%}; positions k/2 in [-128,128], sizes integers in [0,64], margins k/2 in [-16,16]; "
          "circle/ellipse enclosure decided over the real hull of the domain with relative slack 1.001 on r^2 (single-precision sqrt(2) factor); references that are themselves held back by a later anchor; the inside element is a proper box")
ASSUMPTIONS = ["margin values map to top/right/bottom/left in CSS order (docs: attribute-ref.md#margin)", "percent margins are taken of max(width,height) of the union for surround and of min(width,height) of the intersection for inside (doc comment in position.rs; the property leaves the base to the documentation)",
               "inscribed area of a circle/ellipse for a rect container = centre +- radius * f32(1/sqrt 2); same-shape containers use the bounding box",
               "no minimality is demanded of circumscribed circles/ellipses: only enclosure of the grown box and the common centre"]

POS = (-128, 128, 1)
SZ = (0, 64, 0)
MG = (-16, 16, 1)
MGP = (0, 16, 1)
K_INV_SQRT2 = Fraction(0.707106769084930419921875)   # f32 FRAC_1_SQRT_2, exactly


def ref_markup(kind, i, k0):
    a = [f"[[{k0 + j}]]" for j in range(4)]
    off = 9 * i
    if kind == "rect":
        return f'<rect id="r{i}" xy="{a[0]} {a[1]}" wh="{a[2]} {a[3]}"/>', [(3 + off, *POS), (4 - off, *POS), (20, *SZ), (10, *SZ)]
    if kind == "circle":
        return f'<circle id="r{i}" cxy="{a[0]} {a[1]}" r="{a[2]}"/>', [(13 + off, *POS), (9 - off, *POS), (8, *SZ)]
    if kind == "ellipse":
        return f'<ellipse id="r{i}" cxy="{a[0]} {a[1]}" rxy="{a[2]} {a[3]}"/>', [(13 + off, *POS), (9 - off, *POS), (10, *SZ), (6, *SZ)]
    if kind in ("circle-cx", "circle-cy", "circle-r"):
        # SVG defaults: an absent centre coordinate is zero
        c = {"circle-cx": f'cx="{a[0]}" ', "circle-cy": f'cy="{a[0]}" ', "circle-r": ""}[kind]
        return f'<circle id="r{i}" {c}r="{a[1]}"/>', [(13 + off, *POS), (8, *SZ)]
    if kind in ("ellipse-cx", "ellipse-cy"):
        c = f'{kind[-2:]}="{a[0]}"'
        return f'<ellipse id="r{i}" {c} rx="{a[1]}" ry="{a[2]}"/>', [(9 - off, *POS), (10, *SZ), (6, *SZ)]
    if kind == "rect-x":
        return f'<rect id="r{i}" x="{a[0]}" width="{a[1]}" height="{a[2]}"/>', [(3 + off, *POS), (20, *SZ), (10, *SZ)]
    if kind == "line":
        return f'<line id="r{i}" xy1="{a[0]} {a[1]}" xy2="{a[2]} {a[3]}"/>', [(3 + off, *POS), (14, *POS), (23, *POS), (4 - off, *POS)]
    if kind == "g":
        return f'<g id="r{i}"><rect xy="{a[0]} {a[1]}" wh="{a[2]} {a[3]}"/><circle cxy="{a[0]} {a[1]}" r="2"/></g>', [(3 + off, *POS), (4 - off, *POS), (20, *SZ), (10, *SZ)]
    if kind == "surround":
        return (f'<rect id="q{i}" xy="{a[0]} {a[1]}" wh="{a[2]} {a[3]}"/><rect id="r{i}" surround="#q{i}" margin="2"/>', [(3 + off, *POS), (4 - off, *POS), (20, *SZ), (10, *SZ)])
    raise ValueError(kind)


MARGINS = ["none", "a1", "a2", "a3", "a4", "p25", "p50", "p25-50", "mix"]


def margin_spec(form, k0, nonneg):
    """returns (attribute text, var specs, fn(base)-> (T,R,B,L) smt terms)"""
    dom = MGP if nonneg else MG
    if form == "none":
        return "", [], lambda base: ("0.0",) * 4
    if form.startswith("a"):
        n = int(form[1:])
        vs = [((2, 3, 1, 4)[j], *dom) for j in range(n)]
        ph = " ".join(f"[[{k0 + j}]]" for j in range(n))
        v_ = [f"v{k0 + j}" for j in range(n)]
        trbl = {1: (0, 0, 0, 0), 2: (0, 1, 0, 1), 3: (0, 1, 2, 1), 4: (0, 1, 2, 3)}[n]
        return f' margin="{ph}"', vs, lambda base: tuple(v_[j] for j in trbl)
    if form == "p25":
        return ' margin="25%"', [], lambda base: (mul("0.25", base),) * 4
    if form == "p50":
        return ' margin="50%"', [], lambda base: (mul("0.5", base),) * 4
    if form == "p25-50":
        return ' margin="25% 50%"', [], lambda base: (mul("0.25", base), mul("0.5", base), mul("0.25", base), mul("0.5", base))
    if form == "mix":
        vs = [(2, *dom)]
        return f' margin="[[{k0}]] 25%"', vs, lambda base: (f"v{k0}", mul("0.25", base), f"v{k0}", mul("0.25", base))
    raise ValueError(form)



def size_leaves(r, smt_name):
    """non-constant leaves of the product (through max) that defines output term `smt_name` on an SX run; None otherwise"""
    import re as _re
    m = _re.fullmatch(r"t(\d+)", smt_name)
    if not m or r.native:
        return None
    out = []

    def go(i, depth=0):
        ex, g, vb, op, a = r.terms[i]
        if op == "const":
            return True
        if op == "mul" and depth < 6:
            return go(int(a[0]), depth + 1) and go(int(a[1]), depth + 1)
        if op == "max" and depth < 6:
            out.extend([int(a[0]), int(a[1])])
            return True
        if op in ("sub", "var", "add", "min"):
            out.append(i)
            return True
        return False
    return out if go(int(m.group(1))) and out else None


def templates(tier, seed):
    tds = []
    RK = ["rect", "circle", "ellipse", "line", "g", "surround"]
    for cont in ("rect", "circle", "ellipse"):
        for n in (1, 2, 3):
            combos = list(itertools.product(RK, repeat=n)) if (n < 3 or tier == "thorough") else [tuple(random.Random(7 * i + seed).sample(RK, 3)) for i in range(12)]
            for refs in combos:
                for mg in MARGINS:
                    for order in ("after", "before"):
                        if order == "before" and mg not in ("none", "a1"):
                            continue
                        tds.append(dict(fam="surround", cont=cont, refs=list(refs), mg=mg, order=order))
    IK = ["rect", "circle", "ellipse"]
    for cont in ("rect", "circle", "ellipse"):
        for n in (1, 2):
            for refs in itertools.product(IK, repeat=n):
                if cont != "rect" and any(r != "rect" for r in refs) and n > 1:
                    continue
                for mg in MARGINS:
                    tds.append(dict(fam="inside", cont=cont, refs=list(refs), mg=mg, order="after"))
    for cont in ("rect", "circle", "ellipse"):
        triples = list(itertools.product(IK, repeat=3)) if cont == "rect" else [("rect", "rect", "rect")]
        for refs in triples:
            for mg in ("none", "a1", "a4", "p25"):
                tds.append(dict(fam="inside", cont=cont, refs=list(refs), mg=mg, order="after"))
    # the listed elements are themselves waiting for a later element (the container is written first and retried): the
    # references keep their longhand sizes and are placed relative to an anchor that comes last
    for fam_ in ("surround", "inside"):
        for cont in ("rect", "circle", "ellipse"):
            for refs in (["rect"], ["circle"], ["ellipse"], ["rect", "circle"], ["ellipse", "ellipse"], ["circle", "rect", "ellipse"]):
                if fam_ == "inside" and cont != "rect" and any(r != "rect" for r in refs) and len(refs) > 1:
                    continue
                for mg in ("none", "a1", "p25"):
                    for order in ("held-before", "held-mid"):
                        tds.append(dict(fam=fam_, cont=cont, refs=list(refs), mg=mg, order=order))
    # references that rely on SVG's zero default for one centre / corner coordinate
    PART = ["circle-cx", "circle-cy", "circle-r", "ellipse-cx", "ellipse-cy", "rect-x"]
    for fam_ in ("surround", "inside"):
        for cont in ("rect", "circle", "ellipse"):
            for p in PART:
                for refs in ([p], [p, "rect"], ["rect", p]):
                    if fam_ == "inside" and cont != "rect" and len(refs) > 1:
                        continue
                    for mg in ("none", "a2", "p25"):
                        tds.append(dict(fam=fam_, cont=cont, refs=list(refs), mg=mg, order="after"))
    # a listed group whose content waits for a later element
    for fam_ in ("surround", "inside"):
        for cont in ("rect", "circle", "ellipse"):
            for refs in (["g"], ["g", "rect"], ["rect", "g"], ["g", "g"]):
                if fam_ == "inside" and cont != "rect" and len(refs) > 1:
                    continue
                for mg in ("none", "a1"):
                    for order in ("held-before", "held-mid", "held-after"):
                        tds.append(dict(fam=fam_, cont=cont, refs=list(refs), mg=mg, order=order))
    tds.append(dict(fam="both", cont="rect", refs=["rect"], mg="none", order="after"))
    return tds


def twins(tier, seed):
    return [dict(fam="surround", cont="rect", refs=["rect", "circle"], mg="a4", order="after"), dict(fam="surround", cont="circle", refs=["rect"], mg="a1", order="after"),
            dict(fam="inside", cont="rect", refs=["rect", "rect"], mg="a2", order="after"), dict(fam="surround", cont="ellipse", refs=["line"], mg="none", order="after")]


def build(td, wrong=False):
    fam, cont = td["fam"], td["cont"]
    vars_, parts = [], []
    for i, k in enumerate(td["refs"]):
        m, vs = ref_markup(k, i, len(vars_))
        parts.append(m)
        vars_ += vs
    nonneg = cont != "rect" or fam == "inside"
    mtxt, mvs, mfun = margin_spec(td["mg"], len(vars_), nonneg)
    vars_ += mvs
    reflist = " ".join(f"#r{i}" for i in range(len(td["refs"])))
    if fam == "both":
        doc = "<svg>" + "".join(parts) + f'<rect id="c" surround="{reflist}" inside="{reflist}"/></svg>'

        def check_both(r):
            return [Obl("surround+inside-rejected", PASS if r.status == "err" else FAIL, ground=True)]
        return Template("both", doc, vars_, check_both, family="misuse", role="C12/both")
    attr = "surround" if fam == "surround" else "inside"
    cm = f'<{cont} id="c" {attr}="{reflist}"{mtxt}/>'
    if td["order"].startswith("held"):
        # same boxes, written relative to an anchor at the origin that comes last; sizes in longhand so that the pending
        # references look measurable
        held = []
        for m in parts:
            m = m.replace(' xy="[[', ' xy="#anchor@tl [[').replace(' cxy="[[', ' cxy="#anchor@tl [[')
            m = re.sub(r' wh="(\[\[\d+\]\]) (\[\[\d+\]\])"', r' width="\1" height="\2"', m)
            m = re.sub(r' rxy="(\[\[\d+\]\]) (\[\[\d+\]\])"', r' rx="\1" ry="\2"', m)
            held.append(m)
        anchor = '<rect id="anchor" x="0" y="0" width="0" height="0"/>'
        if td["order"] == "held-before":
            doc = "<svg>" + cm + "".join(held) + anchor + "</svg>"
        elif td["order"] == "held-after":
            doc = "<svg>" + "".join(held) + cm + anchor + "</svg>"
        else:
            doc = "<svg>" + held[0] + cm + "".join(held[1:]) + anchor + "</svg>"
    else:
        doc = "<svg>" + ("".join(parts) + cm if td["order"] == "after" else cm + "".join(parts)) + "</svg>"
    W = "1.0" if wrong else "0.0"

    def check(r):
        if r.status != "ok":
            return [Obl("transform-ok", FAIL, ground=True, note=r.docs[0]["msg"][:200])]
        o = Out(r.output)
        c = o.by_id("c")
        if c is None:
            return [Obl("container-present", FAIL, ground=True)]
        obls = []
        bad = [a for a in ("surround", "inside", "margin") if c.get(a) is not None]
        obls.append(Obl("containment-attrs-removed", FAIL if bad else PASS, ground=True, note=",".join(bad)))
        try:
            rbs = []
            rels = []
            for i in range(len(td["refs"])):
                el = o.by_id(f"r{i}")
                rels.append(el)
                rbs.append(G.elem_box(o, el))
        except (KeyError, AttributeError) as e:
            return obls + [Obl("reference-geometry-present", FAIL, ground=True, note=str(e))]
        if fam == "surround":
            U = G.union(rbs)
            base = rmax(U.w, U.h)
            T, R, B, L = mfun(base)
            Gb = U.grow(T, R, B, plus(L, W))
            try:
                cb = G.elem_box(o, c)
            except KeyError as e:
                return obls + [Obl("container-geometry-present", FAIL, ground=True, note=str(e))]
            if cont == "rect":
                obls += [Obl("x1", ne(cb.x1, Gb.x1)), Obl("y1", ne(cb.y1, Gb.y1)), Obl("x2", ne(cb.x2, Gb.x2)), Obl("y2", ne(cb.y2, Gb.y2))]
            else:
                cx, cy = o.num(c, "cx"), o.num(c, "cy")
                obls += [Obl("centre-x", ne(cx, Gb.cx)), Obl("centre-y", ne(cy, Gb.cy))]
                hw, hh = half(Gb.w), half(Gb.h)
                valid = and_(ge(Gb.w, "0.0"), ge(Gb.h, "0.0"))
                # Enclosure is a polynomial inequality over piecewise-linear terms.  Lemma route: if the radius equals
                # K2 * (size of the grown box) with K2 = f32(sqrt 2)/2 -- a linear, exactly decidable statement -- the
                # inequality follows by arithmetic on constants (1/(2*K2^2) = 1.00000003 <= 1.001).  Only if that lemma
                # fails is the inequality itself posed to the solver.
                K2 = num(Fraction(1.41421353816986083984375) / 2)
                if cont == "circle":
                    rr = o.num(c, "r", None)
                    via = [(and_(valid, ne(rr, mul(K2, rmax(Gb.w, Gb.h)))), "int")]
                    obls.append(Obl("corners-inside-circle", and_(valid, gt(plus(mul(hw, hw), mul(hh, hh)), mul("1.001", mul(rr, rr)))), mode="real", via=via))
                    obls.append(Obl("radius-nonnegative", and_(valid, lt(rr, "0.0")), mode="real"))
                else:
                    rx, ry = o.num(c, "rx", None), o.num(c, "ry", None)
                    via = [(and_(valid, ne(rx, mul(K2, Gb.w))), "int"), (and_(valid, ne(ry, mul(K2, Gb.h))), "int")]
                    obls.append(Obl("corners-inside-ellipse", and_(valid, gt(plus(mul(mul(hw, hw), mul(ry, ry)), mul(mul(hh, hh), mul(rx, rx))), mul("1.001", mul(mul(rx, rx), mul(ry, ry))))), mode="real", via=via))
                    obls.append(Obl("radii-nonnegative", and_(valid, or_(lt(rx, "0.0"), lt(ry, "0.0"))), mode="real"))
            return obls
        # inside
        ins = []
        for k, el, rb in zip(td["refs"], rels, rbs):
            if cont == "rect" and k.startswith("circle"):
                cx, cy, rr = o.num(el, "cx"), o.num(el, "cy"), o.num(el, "r", None)
                d = mul(num(K_INV_SQRT2), rr)
                ins.append(G.Box(minus(cx, d), minus(cy, d), plus(cx, d), plus(cy, d)))
            elif cont == "rect" and k.startswith("ellipse"):
                cx, cy, rx, ry = o.num(el, "cx"), o.num(el, "cy"), o.num(el, "rx", None), o.num(el, "ry", None)
                dx, dy = mul(num(K_INV_SQRT2), rx), mul(num(K_INV_SQRT2), ry)
                ins.append(G.Box(minus(cx, dx), minus(cy, dy), plus(cx, dx), plus(cy, dy)))
            else:
                ins.append(rb)
        I = G.intersection(ins)
        nonempty = and_(le(I.x1, I.x2), le(I.y1, I.y2))
        base = rmin(I.w, I.h)
        T, R, B, L = mfun(base)
        Ib = G.Box(plus(I.x1, L), plus(I.y1, T), minus(I.x2, R), minus(I.y2, plus(B, W)))
        geom_attrs = {"rect": ("width", "height"), "circle": ("r",), "ellipse": ("rx", "ry")}[cont]
        if any(c.get(a) is None for a in geom_attrs):
            # no geometry produced: acceptable only when the intersection is empty
            return obls + [Obl("geometry-when-intersection-nonempty", nonempty)]
        cb = G.elem_box(o, c)
        tol = "0.002"
        mode = "real" if any(not k.startswith("rect") for k in td["refs"]) and cont == "rect" else "int"
        fits_margin = and_(le(Ib.x1, Ib.x2), le(Ib.y1, Ib.y2))
        # an element that lies within an area is a proper box
        obls.append(Obl("inside-proper-box", and_(nonempty, fits_margin, or_(lt(cb.w, "0.0"), lt(cb.h, "0.0"))), mode=mode))
        for name, cnd in (("left", lt(cb.x1, minus(Ib.x1, tol))), ("top", lt(cb.y1, minus(Ib.y1, tol))), ("right", gt(cb.x2, plus(Ib.x2, tol))), ("bottom", gt(cb.y2, plus(Ib.y2, tol)))):
            obls.append(Obl(f"inside-{name}", and_(nonempty, fits_margin, cnd), mode=mode))
        return obls
    name = f"{fam}/{cont}/{'+'.join(td['refs'])}/{td['mg']}/{td['order']}"
    return Template(name, doc, vars_, check, family=f"{fam}-{cont}", role=f"C12/{fam}/{cont}", cap=12)
