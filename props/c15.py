"""C15 Variable scoping is lexical and unaffected by evaluation order (DESIGN.md §5, Appendix A).
Every definition of a name carries its own symbolic number, so *which* definition a reference resolved to is the
question whether the output term equals that definition's variable for all values - an SMT validity."""
import random
from fractions import Fraction
from vlib.engine import *  # noqa
from vlib.harness import sample_quota

PROP = "C15"
LEVEL = "model_checking"
ANCHOR_PREFIXES = ["context::", "transform::", "reuse::", "expression::eval_vars", "expression::eval_attr", "loop_el::"]
BOUNDS = ("programs of <= 7 nodes, nesting depth <= 3, over {<var k>, <var j>, chained <var k j=$k>, swap <var k=$j j=$k>, <g k=..>, <g>, <reuse k=..> of a probing template in <specs>, "
          "<reuse> of a template whose evaluation needs a forward reference, <loop count=2>, <if test=1>, probe, probe carrying a forward reference}; plus <var> elements that themselves need a forward reference (plain, swap, chained, accumulating); three variable names (one hyphenated, read through ${...}); every definition a distinct symbolic integer in [-1000,1000]; "
          "probes read $k and $j through pass-through attributes; generated from a seeded grammar (thorough: 20000 programs, quick: 2500); further grammar items: bindings to the empty string, empty <g .../> elements, templates written after their use, reuse x / y as locals, loop / for variables (also zero-pass loops), <symbol> scope, a non-ASCII variable name read un-braced, variables read in geometry and text; expression-valued attribute locals read directly, copied through <var>, bound by <reuse>, used as a loop count and read by a deferred element")
ASSUMPTIONS = ["scopes are opened by <g>/<symbol> and <reuse> (docs expressions.md 'attribute locals'); <loop>/<if> do not open a scope; <var> assigns into the innermost open scope",
               "all attributes of one <var> read the bindings in force before it; an undefined $name is left verbatim"]

VDOM = (-1000, 1000, 0)


# ---------------------------------------------------------------- program generation
def gen_items(rnd, depth, budget, top=False):
    items = []
    n = rnd.randint(1, 3 if not top else 4)
    kinds = ["var_k", "var_j", "chain", "swap", "probe", "probe", "fwd", "g_k", "g0", "reuse", "reuse_e", "reuse_f", "reuse_l", "reuse_x", "g_h", "var_h", "g_e", "var_e", "loopvar", "forvar", "sym_k", "probe_geom", "probe_text", "g_void", "loop0_k", "var_u", "g_u", "loop", "if"]
    for _ in range(n):
        if budget[0] <= 0:
            break
        k = rnd.choice(kinds)
        if k in ("g_k", "g0", "g_h", "g_e", "g_u", "loop", "if", "loopvar", "forvar", "sym_k") and depth >= 3:
            k = "probe"
        budget[0] -= 1
        if k in ("g_k", "g0", "g_h", "g_e", "g_u", "loop", "if", "loopvar", "forvar", "sym_k"):
            items.append([k, gen_items(rnd, depth + 1, budget)])
        else:
            items.append([k])
    return items


def templates(tier, seed):
    n = 20000 if tier == "thorough" else 2500
    tds = []
    # hand-written programs from the property text come first
    fixed = [
        [["var_k"], ["g_k", [["fwd"]]], ["probe"]],
        [["var_k"], ["g_k", [["probe"], ["g_k", [["probe"], ["var_k"], ["probe"]]], ["probe"]]], ["probe"]],
        [["var_k"], ["var_j"], ["swap"], ["probe"]],
        [["var_k"], ["fwd"], ["var_k"], ["probe"]],
        [["probe"], ["var_k"], ["reuse"], ["probe"]],
        [["var_k"], ["g0", [["var_k"], ["probe"]]], ["probe"]],
        [["var_j"], ["reuse"], ["g_k", [["reuse"], ["fwd"]]], ["reuse"], ["probe"]],
        [["var_k"], ["loop", [["var_k"], ["probe"]]], ["probe"]],
        [["var_k"], ["if", [["g_k", [["fwd"]]]]], ["probe"]],
    ]
    fixed += [
        [["var_k"], ["reuse_l"], ["probe"]], [["reuse_l"], ["probe"]], [["var_k"], ["g_k", [["reuse_l"], ["probe"]]], ["probe"]],
        [["var_k"], ["g_e", [["probe"]]], ["probe"]], [["g_e", [["probe"]]], ["probe"]], [["var_k"], ["var_e"], ["probe"]], [["var_e"], ["probe"]], [["var_k"], ["g_k", [["var_e"], ["probe"]]], ["probe"]],
        [["var_k"], ["reuse_x"], ["probe"]], [["reuse_x"], ["reuse"], ["probe"]],
        [["var_k"], ["loopvar", [["probe"]]], ["probe"]], [["loopvar", [["probe"], ["g_k", [["probe"]]]]], ["probe"]], [["var_k"], ["g_k", [["forvar", [["probe"]]], ["probe"]]], ["probe"]],
        [["var_k"], ["sym_k"], ["probe"]], [["sym_k"], ["probe"]], [["var_k"], ["probe_geom"], ["g_k", [["probe_geom"]]], ["probe_geom"]], [["var_k"], ["var_j"], ["probe_text"]],
        [["var_k"], ["var_j"], ["loop0_k"], ["probe"]], [["g_k", [["loop0_k"], ["probe"]]], ["probe"]], [["loop0_k"], ["probe"]],
        [["var_k"], ["g_void"], ["probe"]], [["var_k"], ["g_k", [["g_void"], ["probe"]]], ["probe"]], [["g_void"], ["probe"]], [["var_k"], ["var_j"], ["g_k", [["probe"], ["g_void"], ["probe"]]], ["g_void"], ["probe"]],
        [["var_u"], ["probe"], ["g_u", [["probe"]]], ["probe"]], [["g_u", [["var_u"], ["probe"]]], ["probe"]],
        [["g_k", [["probe"]]], ["probe"]],                                  # first scope opened on an empty stack
        [["reuse"], ["probe"]],
        [["g_k", [["var_j"], ["probe"]]], ["probe"], ["var_k"], ["probe"]],
        [["var_k"], ["g_k", [["reuse_f"], ["probe"]]], ["probe"]],
        [["var_k"], ["reuse_f"], ["probe"], ["reuse"], ["probe"]],
        [["var_h"], ["g_h", [["probe"], ["reuse"]]], ["probe"]],
        [["g_h", [["probe"], ["g_h", [["probe"]]], ["probe"]]], ["probe"]],
        [["var_k"], ["reuse_e"], ["probe"]],
        [["var_k"], ["var_j"], ["reuse_e"], ["reuse"], ["probe"]],
        [["var_k"], ["g_k", [["reuse_e"], ["probe"]]], ["reuse"], ["probe"]],
        [["reuse_e"], ["reuse_e"], ["probe"]],
    ]
    for i, p in enumerate(fixed):
        tds.append(dict(fam="fixed", prog=p, n=i))
    for form in ("plain", "swap", "chain", "counter"):
        for nprobe in (1, 2):
            for inner in (False, True):
                tds.append(dict(fam="varfwd", form=form, nprobe=nprobe, inner=inner, n=len(tds)))
    for form in ("snapshot", "snapshot-inner-shadow", "direct", "reuse-local", "loop-count", "snapshot-after-fwd"):
        for op in ("* 2", "+ 1"):
            tds.append(dict(fam="exprlocal", form=form, op=op, n=len(tds)))
    rnd = random.Random(1000 + (seed if tier == "quick" else 0))
    seen = set()
    while len(tds) < n + len(fixed):
        p = gen_items(rnd, 1, [7], top=True)
        key = repr(p)
        if key in seen or "probe" not in key and "fwd" not in key and "reuse" not in key:
            continue
        seen.add(key)
        tds.append(dict(fam="grammar", prog=p, n=len(tds)))
    return tds


def twins(tier, seed):
    return [dict(fam="fixed", prog=[["var_k"], ["g_k", [["probe"]]], ["probe"]], n=0), dict(fam="fixed", prog=[["var_k"], ["var_j"], ["swap"], ["probe"]], n=1)]


# ---------------------------------------------------------------- rendering + reference interpreter
class Ren:
    def __init__(self):
        self.vars = []
        self.doc = []
        self.expect = []          # per probe output, in document order: dict(k=..., j=...) of var index or None (undefined)
        self.has_fwd = False
        self.features = set()

    def newvar(self):
        self.vars.append((len(self.vars) * 7 + 11, *VDOM))
        return len(self.vars) - 1


def rnd_void(v):
    return f'<g k="[[{v}]]" j="0"/>'


def lookup(stack, name):
    for sc in reversed(stack):
        if name in sc:
            return sc[name]
    return None


def render(items, ren, stack, in_scope_with_fwd=None):
    for it in items:
        k = it[0]
        if k in ("var_k", "var_j"):
            nm = k[-1]
            v = ren.newvar()
            ren.doc.append(f'<var {nm}="[[{v}]]"/>')
            if ren.has_fwd:
                ren.features.add("assign-after-fwd")
            stack[-1][nm] = v
        elif k == "chain":
            if lookup(stack, "k") is None or isinstance(lookup(stack, "k"), str):
                it[0] = "skip"   # not emitted (decided once, also for a later loop iteration): a value that is itself the text
                continue         # of an unresolved reference is outside the templates (indirection is a feature)
            v = ren.newvar()
            old_k = lookup(stack, "k")
            ren.doc.append(f'<var k="[[{v}]]" j="$k"/>')
            if ren.has_fwd:
                ren.features.add("assign-after-fwd")
            stack[-1]["k"] = v
            if old_k is not None:
                stack[-1]["j"] = old_k
            else:
                stack[-1]["j"] = "lit:$k"
        elif k == "swap":
            ok, oj = lookup(stack, "k"), lookup(stack, "j")
            if ok is None or oj is None or isinstance(ok, str) or isinstance(oj, str):
                it[0] = "skip"
                continue
            ren.doc.append('<var k="$j" j="$k"/>')
            if ren.has_fwd:
                ren.features.add("assign-after-fwd")
            stack[-1]["k"] = oj if oj is not None else "lit:$j"
            stack[-1]["j"] = ok if ok is not None else "lit:$k"
        elif k in ("probe", "fwd"):
            pos = 'xy="#later|h 1" ' if k == "fwd" else ""
            ren.doc.append(f'<rect {pos}wh="1" data-p="$k" data-q="$j" data-r="${{line-gap}}" data-u="$größe"/>')
            ren.expect.append(dict(k=lookup(stack, "k"), j=lookup(stack, "j"), h=lookup(stack, "line-gap"), u=lookup(stack, "größe")))
            if k == "fwd":
                ren.has_fwd = True
                ren.features.add("fwd")
                if len(stack) > 1:
                    ren.features.add("fwd-inside-scope")
        elif k in ("g_k", "g0"):
            if k == "g_k":
                v = ren.newvar()
                ren.doc.append(f'<g k="[[{v}]]">')
                stack.append({"k": v})
            else:
                ren.doc.append("<g>")
                stack.append({})
            render(it[1], ren, stack)
            stack.pop()
            ren.doc.append("</g>")
        elif k == "reuse":
            v = ren.newvar()
            ren.doc.append(f'<reuse href="#tpl" k="[[{v}]]"/>')
            stack.append({"k": v})
            ren.expect.append(dict(k=lookup(stack, "k"), j=lookup(stack, "j"), h=lookup(stack, "line-gap"), u=lookup(stack, "größe")))
            stack.pop()
            ren.features.add("reuse")
        elif k in ("loopvar", "forvar"):
            # the loop variable is a variable like any other: assigned (in the scope the loop stands in) before each pass, and
            # left with its last value afterwards
            vals2 = ("0", "1") if k == "loopvar" else ("7", "8")
            ren.doc.append('<loop count="2" loop-var="k">' if k == "loopvar" else '<for var="k" data="7, 8">')
            nv0 = len(ren.vars)
            for pi, val in enumerate(vals2):
                stack[-1]["k"] = "lit:" + val
                if pi == 0:
                    render(it[1], ren, stack)
                else:
                    replay_render(it[1], ren, stack, nv0)
            if ren.has_fwd:
                ren.features.add("assign-after-fwd")
            ren.doc.append("</loop>" if k == "loopvar" else "</for>")
        elif k == "sym_k":
            # <symbol> opens a scope like <g>; its content is not rendered, so what is probed is the state AFTER it
            v = ren.newvar()
            n_before = len(ren.expect)
            ren.doc.append(f'<symbol k="[[{v}]]">')
            stack.append({"k": v})
            render([["var_j"]], ren, stack)
            stack.pop()
            ren.doc.append("</symbol>")
            del ren.expect[n_before:]
        elif k == "probe_geom":
            # the same variables read in a geometry attribute and in text
            kv = lookup(stack, "k")
            if isinstance(kv, int):
                ren.doc.append('<rect xy="$k 3" wh="1" data-p="$k" data-q="$j" data-r="${line-gap}" data-u="$größe"/>')
                ren.expect.append(dict(k=kv, j=lookup(stack, "j"), h=lookup(stack, "line-gap"), u=lookup(stack, "größe"), gx=kv))
            else:
                it[0] = "skip"
        elif k == "probe_text":
            ren.doc.append('<rect wh="1" data-p="$k" data-q="$j" data-r="${line-gap}" data-u="$größe"/><text xy="0">k=$k;j=$j</text>')
            ren.expect.append(dict(k=lookup(stack, "k"), j=lookup(stack, "j"), h=lookup(stack, "line-gap"), u=lookup(stack, "größe"), tx=(lookup(stack, "k"), lookup(stack, "j"))))
        elif k == "loop0_k":
            # a loop that makes no pass assigns nothing
            ren.doc.append('<loop count="0" loop-var="k"><rect wh="1"/></loop><loop while="0" loop-var="j"><rect wh="1"/></loop>')
        elif k == "g_void":
            # an empty group element opens and closes its own scope: nothing outside changes
            v = ren.newvar()
            ren.doc.append(rnd_void(v))
        elif k == "var_u":
            v = ren.newvar()
            ren.doc.append(f'<var größe="[[{v}]]"/>')
            if ren.has_fwd:
                ren.features.add("assign-after-fwd")
            stack[-1]["größe"] = v
        elif k == "g_u":
            v = ren.newvar()
            ren.doc.append(f'<g größe="[[{v}]]">')
            stack.append({"größe": v})
            render(it[1] if len(it) > 1 else [["probe"]], ren, stack)
            stack.pop()
            ren.doc.append("</g>")
        elif k == "var_e":
            # a definition with the empty string as value is a definition
            ren.doc.append('<var k=""/>')
            if ren.has_fwd:
                ren.features.add("assign-after-fwd")
            stack[-1]["k"] = "lit:"
        elif k == "g_e":
            ren.doc.append('<g k="">')
            stack.append({"k": "lit:"})
            render(it[1] if len(it) > 1 else [["probe"]], ren, stack)
            stack.pop()
            ren.doc.append("</g>")
        elif k == "reuse_l":
            # the template is written after its use (the instantiation is retried once it is known)
            v = ren.newvar()
            ren.doc.append(f'<reuse href="#tpll" k="[[{v}]]"/>')
            stack.append({"k": v})
            ren.expect.append(dict(k=lookup(stack, "k"), j=lookup(stack, "j"), h=lookup(stack, "line-gap"), u=lookup(stack, "größe")))
            stack.pop()
            ren.has_fwd = True
            ren.features.add("fwd")
            ren.features.add("fwd-inside-scope")
        elif k == "reuse_x":
            # every attribute of the reuse element is a local of the instance - x and y too
            v, w = ren.newvar(), ren.newvar()
            ren.doc.append(f'<reuse href="#tplx" k="[[{v}]]" x="[[{w}]]"/>')
            stack.append({"k": v, "x": w})
            ren.expect.append(dict(k=lookup(stack, "k"), j=lookup(stack, "j"), h=lookup(stack, "line-gap"), u=lookup(stack, "größe"), x=w, y=None))
            stack.pop()
            ren.features.add("reuse")
        elif k == "var_h":
            v = ren.newvar()
            ren.doc.append(f'<var line-gap="[[{v}]]"/>')
            if ren.has_fwd:
                ren.features.add("assign-after-fwd")
            stack[-1]["line-gap"] = v
        elif k == "g_h":
            v = ren.newvar()
            ren.doc.append(f'<g line-gap="[[{v}]]">')
            stack.append({"line-gap": v})
            render(it[1] if len(it) > 1 else [["probe"]], ren, stack)
            stack.pop()
            ren.doc.append("</g>")
        elif k == "reuse_f":
            # the instance itself carries a forward reference: the instantiation fails late (when the copy is generated)
            v = ren.newvar()
            ren.doc.append(f'<reuse href="#tplf" k="[[{v}]]"/>')
            stack.append({"k": v})
            ren.expect.append(dict(k=lookup(stack, "k"), j=lookup(stack, "j"), h=lookup(stack, "line-gap"), u=lookup(stack, "größe")))
            stack.pop()
            ren.has_fwd = True
            ren.features.add("fwd")
            ren.features.add("fwd-inside-scope")
        elif k == "reuse_e":
            # the instance cannot be evaluated until `later` is known: the scope pushed for the instantiation must not
            # survive the failed attempt
            v = ren.newvar()
            ren.doc.append(f'<reuse href="#tple" k="[[{v}]]"/>')
            stack.append({"k": v})
            ren.expect.append(dict(k=lookup(stack, "k"), j=lookup(stack, "j"), h=lookup(stack, "line-gap"), u=lookup(stack, "größe")))
            stack.pop()
            ren.has_fwd = True
            ren.features.add("fwd")
            ren.features.add("fwd-inside-scope")
        elif k == "loop":
            ren.doc.append('<loop count="2">')
            start_doc = len(ren.doc)
            start_exp = len(ren.expect)
            nv = len(ren.vars)
            render(it[1], ren, stack)
            # second iteration: the markup is the same, so definitions re-assign the SAME variables (same placeholders);
            # only bindings and expectations are produced
            replay_render(it[1], ren, stack, nv)
            ren.doc.append("</loop>")
        elif k == "if":
            ren.doc.append('<if test="1">')
            render(it[1], ren, stack)
            ren.doc.append("</if>")
        elif k == "skip":
            continue
        else:
            raise ValueError(k)


def replay_render(items, ren, stack, nv_start):
    """second loop iteration: the document text is the same, so definitions reuse the variables allocated in the first
    pass (in the same order); only bindings and expectations are produced"""
    counter = [nv_start]

    def nextvar():
        v = counter[0]
        counter[0] += 1
        return v

    def go(items, stack):
        for it in items:
            k = it[0]
            if k in ("var_k", "var_j"):
                stack[-1][k[-1]] = nextvar()
            elif k == "skip":
                continue
            elif k == "chain":
                v = nextvar()
                old_k = lookup(stack, "k")
                stack[-1]["k"] = v
                stack[-1]["j"] = old_k if old_k is not None else "lit:$k"
            elif k == "swap":
                ok, oj = lookup(stack, "k"), lookup(stack, "j")
                stack[-1]["k"] = oj if oj is not None else "lit:$j"
                stack[-1]["j"] = ok if ok is not None else "lit:$k"
            elif k in ("probe", "fwd"):
                ren.expect.append(dict(k=lookup(stack, "k"), j=lookup(stack, "j"), h=lookup(stack, "line-gap"), u=lookup(stack, "größe")))
            elif k in ("g_k", "g0"):
                stack.append({"k": nextvar()} if k == "g_k" else {})
                go(it[1], stack)
                stack.pop()
            elif k in ("loopvar", "forvar"):
                vals2 = ("0", "1") if k == "loopvar" else ("7", "8")
                nv = counter[0]
                c2 = nv
                for val in vals2:
                    counter[0] = nv
                    stack[-1]["k"] = "lit:" + val
                    go(it[1], stack)
                    c2 = counter[0]
                counter[0] = c2
            elif k == "sym_k":
                nextvar()
                nextvar()
            elif k == "probe_geom":
                kv = lookup(stack, "k")
                ren.expect.append(dict(k=kv, j=lookup(stack, "j"), h=lookup(stack, "line-gap"), u=lookup(stack, "größe"), gx=kv if isinstance(kv, int) else None))
            elif k == "probe_text":
                ren.expect.append(dict(k=lookup(stack, "k"), j=lookup(stack, "j"), h=lookup(stack, "line-gap"), u=lookup(stack, "größe"), tx=(lookup(stack, "k"), lookup(stack, "j"))))
            elif k == "loop0_k":
                pass
            elif k == "g_void":
                nextvar()
            elif k == "var_u":
                stack[-1]["größe"] = nextvar()
            elif k == "g_u":
                stack.append({"größe": nextvar()})
                go(it[1] if len(it) > 1 else [["probe"]], stack)
                stack.pop()
            elif k == "var_e":
                stack[-1]["k"] = "lit:"
            elif k == "g_e":
                stack.append({"k": "lit:"})
                go(it[1] if len(it) > 1 else [["probe"]], stack)
                stack.pop()
            elif k == "reuse_x":
                v, w = nextvar(), nextvar()
                stack.append({"k": v, "x": w})
                ren.expect.append(dict(k=lookup(stack, "k"), j=lookup(stack, "j"), h=lookup(stack, "line-gap"), u=lookup(stack, "größe"), x=w, y=None))
                stack.pop()
            elif k == "var_h":
                stack[-1]["line-gap"] = nextvar()
            elif k == "g_h":
                stack.append({"line-gap": nextvar()})
                go(it[1] if len(it) > 1 else [["probe"]], stack)
                stack.pop()
            elif k in ("reuse", "reuse_e", "reuse_f", "reuse_l"):
                v = nextvar()
                stack.append({"k": v})
                ren.expect.append(dict(k=lookup(stack, "k"), j=lookup(stack, "j"), h=lookup(stack, "line-gap"), u=lookup(stack, "größe")))
                stack.pop()
            elif k == "loop":
                nv = counter[0]
                go(it[1], stack)
                c2 = counter[0]
                counter[0] = nv
                go(it[1], stack)
                counter[0] = c2
            elif k == "if":
                go(it[1], stack)
    go(items, stack)


def build_varfwd(td, wrong):
    """a <var> that itself needs a forward reference is retried as a whole: its assignment must happen exactly once, from
    the values in force before it.  Only probes that are themselves deferred (and therefore evaluated after the retry)
    are read, so that the expected values are the lexical ones."""
    form = td["form"]
    vars_ = [(11, *VDOM), (18, *VDOM), (25, *VDOM)]
    pre = '<var k="[[0]]" j="[[1]]"/>'
    if form == "plain":
        var, ek, ej = '<var k="[[2]]" w="{{#later~w}}"/>', 2, 1
    elif form == "swap":
        var, ek, ej = '<var k="$j" j="$k" w="{{#later~w}}"/>', 1, 0
    elif form == "chain":
        var, ek, ej = '<var k="[[2]]" j="$k" w="{{#later~w}}"/>', 2, 0
    else:
        var, ek, ej = '<var k="{{$k + [[2]]}}" w="{{#later~w}}"/>', ("sum", 0, 2), 1
    probe = '<rect xy="#later|h 1" wh="1" data-p="$k" data-q="$j"/>'
    body = var + probe * td["nprobe"]
    if td["inner"]:
        body = f"<g>{body}</g>"
    doc = f'<svg>{pre}{body}<rect id="later" xy="0" wh="2"/></svg>'

    def check(r):
        if r.status != "ok":
            return [Obl("transform-ok", FAIL, ground=True, note=r.docs[0]["msg"][:200])]
        o = Out(r.output)
        probes = [e for e in o.all if e.get("data-p") is not None]
        if len(probes) != td["nprobe"]:
            return [Obl("probe-count", FAIL, ground=True, note=str(len(probes)))]
        obls = []
        for i, e in enumerate(probes):
            for nm, attr, want in (("k", "data-p", ek), ("j", "data-q", ej)):
                try:
                    t = o.tok(e.get(attr))
                except Exception:
                    obls.append(Obl(f"probe{i}.${nm}-resolved", FAIL, ground=True, note=str(e.get(attr))))
                    continue
                exp = plus(f"v{want[1]}", f"v{want[2]}") if isinstance(want, tuple) else f"v{want}"
                if wrong and nm == "k":
                    exp = plus(exp, "1.0")
                obls.append(Obl(f"probe{i}.${nm}-assigned-once-from-prior-values", ne(t, exp)))
        return obls
    return Template(f"varfwd/{form}/{td['nprobe']}/{'g' if td['inner'] else 'top'}", doc, vars_, check, family="var-with-forward-reference", role="C15/var-with-forward-reference", cap=4)


def build_exprlocal(td, wrong):
    """an attribute local whose value is an expression: what a descendant reads (and what a <var> copies from it) is the value
    of that expression, also when the reference itself is written without braces"""
    form, op = td["form"], td["op"]
    vars_ = [(11, *VDOM), (18, *VDOM)]
    f = (lambda t: mul(t, "2.0")) if op == "* 2" else (lambda t: plus(t, "1.0"))
    P = lambda nm: f'<rect wh="1" data-p="${nm}"/>'
    if form == "snapshot":
        body, exp = f'<var n="[[0]]"/><g w="{{{{$n {op}}}}}"><var x="$w"/>{P("x")}<var n="[[1]]"/>{P("x")}</g>', [f("v0"), f("v0")]
    elif form == "snapshot-inner-shadow":
        body, exp = f'<var n="[[0]]"/><g w="{{{{$n {op}}}}}"><var x="$w"/><g n="[[1]]">{P("x")}</g>{P("x")}</g>', [f("v0"), f("v0")]
    elif form == "direct":
        body, exp = f'<var n="[[0]]"/><g w="{{{{$n {op}}}}}">{P("w")}<g>{P("w")}</g></g>', [f("v0"), f("v0")]
    elif form == "reuse-local":
        body, exp = f'<specs><g id="tx"><var x="$w"/>{P("x")}<var n="[[1]]"/>{P("x")}</g></specs><var n="[[0]]"/><reuse href="#tx" w="{{{{$n {op}}}}}"/>', [f("v0"), f("v0")]
    elif form == "nested-local":
        body, exp = f'<var n="[[0]]"/><g w="{{{{$n {op}}}}}"><g u="$w"><var x="$u"/>{P("x")}<var n="[[1]]"/>{P("x")}</g></g>', [f("v0"), f("v0")]
    elif form == "snapshot-after-fwd":
        body, exp = f'<var n="[[0]]"/><g w="{{{{$n {op}}}}}"><var x="$w"/><rect xy="#later|h 1" wh="1" data-p="$x"/></g>', [f("v0")]
    else:
        body, exp = f'<var n="1"/><g reps="{{{{$n {op}}}}}"><loop count="$reps">{P("reps")}</loop></g><rect xy="[[0]] [[1]]" wh="1"/>', ["2.0", "2.0"]
    doc = f'<svg>{body}<rect id="later" xy="0" wh="2"/></svg>'

    def check(r):
        if r.status != "ok":
            return [Obl("transform-ok", FAIL, ground=True, note=r.docs[0]["msg"][:200])]
        o = Out(r.output)
        probes = [e for e in o.all if e.get("data-p") is not None and e.get("id") is None]
        if len(probes) != len(exp):
            return [Obl("probe-count", FAIL, ground=True, note=f"{len(probes)} outputs for {len(exp)} probes")]
        obls = []
        for i, (e, want) in enumerate(zip(probes, exp)):
            try:
                t = o.tok(e.get("data-p"))
            except Exception:
                obls.append(Obl(f"probe{i}-resolved", FAIL, ground=True, note=str(e.get("data-p"))))
                continue
            obls.append(Obl(f"probe{i}-is-value-of-the-local", ne(t, plus(want, "1.0") if wrong else want)))
        return obls
    return Template(f"exprlocal/{form}/{op}", doc, vars_, check, family="expression-valued-locals", role="C15/expression-valued-local", cap=4)


def build(td, wrong=False):
    if td["fam"] == "varfwd":
        return build_varfwd(td, wrong)
    if td["fam"] == "exprlocal":
        return build_exprlocal(td, wrong)
    import copy
    ren = Ren()
    stack = [{}]
    render(copy.deepcopy(td["prog"]), ren, stack)
    doc = ('<svg><specs><rect id="tpl" wh="1" data-p="$k" data-q="$j" data-r="${line-gap}" data-u="$größe"/><rect id="tple" wh="1" data-p="$k" data-q="$j" data-r="${line-gap}" data-u="$größe" data-w="{{#later~w}}"/><rect id="tplf" xy="#later|h 2" wh="1" data-p="$k" data-q="$j" data-r="${line-gap}" data-u="$größe"/>'
           '<rect id="tplx" wh="1" data-p="$k" data-q="$j" data-r="${line-gap}" data-u="$größe" data-x="$x" data-y="$y"/></specs>' + "".join(ren.doc) +
           '<rect id="later" xy="0" wh="2"/><specs><rect id="tpll" wh="1" data-p="$k" data-q="$j" data-r="${line-gap}" data-u="$größe"/></specs></svg>')
    expect = ren.expect
    feats = ren.features
    # role signatures for known-finding matching.  The unit that is re-evaluated because of a forward reference is the
    # top-level item containing it; assignments inside that item (already executed by the failed attempt) or in any
    # later item are what a re-evaluation can wrongly observe.
    def has(items, kinds):
        return any(it[0] in kinds or (len(it) > 1 and has(it[1], kinds)) for it in items)
    first_fwd = next((i for i, it in enumerate(td["prog"]) if has([it], ("fwd", "reuse_e", "reuse_f", "reuse_l"))), None)
    if first_fwd is not None:
        assigns = ("var_k", "var_j", "var_h", "var_e", "var_u", "chain", "swap", "loopvar", "forvar", "sym_k")
        if any(has([it], assigns) for i, it in enumerate(td["prog"]) if i > first_fwd or (has([it], ("fwd", "reuse_e", "reuse_f", "reuse_l")))):
            feats.add("assign-after-fwd")
    if "assign-after-fwd" in feats:
        role = "C15/deferred-element-sees-later-assignment"
    elif "fwd-inside-scope" in feats:
        role = "C15/forward-reference-inside-scope"
    else:
        role = "C15/lexical"

    def check(r):
        if r.status != "ok":
            return [Obl("transform-ok", FAIL, ground=True, note=r.docs[0]["msg"][:200])]
        o = Out(r.output)
        probes = [e for e in o.all if e.get("data-p") is not None and o.tag(e) == "rect" and e.get("id") not in ("tpl", "tple", "tplf", "tplx", "tpll")]
        obls = []
        if len(probes) != len(expect):
            return [Obl("probe-count", FAIL, ground=True, note=f"{len(probes)} outputs for {len(expect)} probes")]
        for i, (e, ex) in enumerate(zip(probes, expect)):
            names = [("k", "data-p"), ("j", "data-q"), ("h", "data-r"), ("u", "data-u")] + ([("x", "data-x"), ("y", "data-y")] if "x" in ex else [])
            for nm, attr in names:
                got = e.get(attr)
                want = ex.get(nm)
                if wrong and i == len(expect) - 1 and nm == "k":
                    want = 0 if want != 0 else None
                if want is None or (isinstance(want, str) and want.startswith("lit:")):
                    lit = ("${line-gap}" if nm == "h" else "$größe" if nm == "u" else "$" + nm) if want is None else want[4:]
                    obls.append(Obl(f"probe{i}.${nm}-verbatim", PASS if got == lit else FAIL, ground=True, note=f"{got!r} expected {lit!r}"))
                else:
                    try:
                        t = o.tok(got)
                    except Exception:
                        obls.append(Obl(f"probe{i}.${nm}-resolved", FAIL, ground=True, note=f"{got!r} expected definition v{want}"))
                        continue
                    obls.append(Obl(f"probe{i}.${nm}-is-definition-v{want}", ne(t, f"v{want}")))
            if isinstance(ex.get("gx"), int):
                obls.append(Obl(f"probe{i}.x-is-definition-v{ex['gx']}", ne(o.num(e, "x"), f"v{ex['gx']}")))
        return obls
    return Template(f"{td['fam']}/{td['n']}", doc, ren.vars, check, family="scoping-" + td["fam"], role=role, cap=4, meta=dict(prog=td["prog"]))
