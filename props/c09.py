"""C09 Relative positioning places elements exactly where the relspec says (DESIGN.md §5, Appendix A)."""
import itertools
from fractions import Fraction
from vlib.engine import *  # noqa
from vlib import geom as G
from vlib.harness import sample_quota

PROP = "C09"
LEVEL = "model_checking"
ANCHOR_PREFIXES = ["element::SvgElement::eval_rel", "element::SvgElement::place_at", "element::SvgElement::eval_pos", "element::SvgElement::pos_attr", "element::SvgElement::eval_size",
                   "element::SvgElement::split_compound", "element::SvgElement::expand_compound", "element::SvgElement::resolve_size", "element::SvgElement::extract_dx",
                   "position::", "element::split_relspec", "types::extract_elref", "context::"]
BOUNDS = ("reference element in {rect, circle, ellipse, line, box, point, g with one child}, referenced as #id or ^; positioned element in {rect, circle, ellipse, rect with dw/dh/dwh, rect / circle / ellipse with dx / dy / dxy}; elements positioned on one axis only; "
          "forms: |h |H |v |V with gap absent/symbolic (either sign); @loc for 9 locations and 4 edges (offset symbolic either sign, or 0/25/50/100/150 %) with xy, xy+xy-loc (8), cxy, "
          "delta absent/one/two symbolic values; 11 scalar kinds on x y cx cy x2 y2 with delta absent/abs/percent, bare per-axis reference, per-axis @loc; relative sizes wh=#r, #r p%, #r a b, "
          "width=#r~h p%, dw dh dwh abs/percent; chains of length 3; positions k/2 in [-512,512], sizes k/2 in [0,256] (integers where a percentage or a further halving is applied), gaps/deltas k/2 in [-64,64]; chains in every document order, middle element by cxy + r or with dw / dh, last element sized from the middle one; element ids with non-ASCII letters, digits, _ and -")
ASSUMPTIONS = ["a single delta value after @loc applies to both axes (docs: expression pair)", "radius scalar ~r = max(w,h)/2 (code doc comment 'by convention')",
               "the referenced box of visible elements is recomputed from the referenced element's own output geometry; for invisible box/point it is taken from the input values"]

POS = (-512, 512, 1)
POSI = (-512, 512, 0)
SZ = (0, 256, 1)
SZI = (0, 256, 0)
DLT = (-64, 64, 1)


# reference element kinds: markup (vars start at index 0), var specs, box from vars, visible?
def ref_kinds():
    return {
        "rect": ('<rect id="r" xy="[[0]] [[1]]" wh="[[2]] [[3]]"/>', [(3, *POS), (4, *POS), (20, *SZI), (10, *SZI)], lambda: G.Box("v0", "v1", plus("v0", "v2"), plus("v1", "v3")), True),
        "circle": ('<circle id="r" cxy="[[0]] [[1]]" r="[[2]]"/>', [(13, *POS), (9, *POS), (5, *SZI)], lambda: G.Box(minus("v0", "v2"), minus("v1", "v2"), plus("v0", "v2"), plus("v1", "v2")), True),
        "ellipse": ('<ellipse id="r" cxy="[[0]] [[1]]" rxy="[[2]] [[3]]"/>', [(13, *POS), (9, *POS), (10, *SZI), (5, *SZI)], lambda: G.Box(minus("v0", "v2"), minus("v1", "v3"), plus("v0", "v2"), plus("v1", "v3")), True),
        "line": ('<line id="r" xy1="[[0]] [[1]]" xy2="[[2]] [[3]]"/>', [(3, *POSI), (14, *POSI), (23, *POSI), (4, *POSI)], lambda: G.Box(rmin("v0", "v2"), rmin("v1", "v3"), rmax("v0", "v2"), rmax("v1", "v3")), True),
        "box": ('<box id="r" xy="[[0]] [[1]]" wh="[[2]] [[3]]"/>', [(3, *POS), (4, *POS), (20, *SZI), (10, *SZI)], lambda: G.Box("v0", "v1", plus("v0", "v2"), plus("v1", "v3")), False),
        "point": ('<point id="r" xy="[[0]] [[1]]"/>', [(3, *POS), (4, *POS)], lambda: G.Box("v0", "v1", "v0", "v1"), False),
        "g": ('<g id="r"><rect xy="[[0]] [[1]]" wh="[[2]] [[3]]"/></g>', [(3, *POS), (4, *POS), (20, *SZI), (10, *SZI)], lambda: G.Box("v0", "v1", plus("v0", "v2"), plus("v1", "v3")), True),
    }


def pos_kinds(k0):
    """positioned element kinds: markup template with {rel}, var specs (indices from k0), (w, h) terms"""
    a, b = f"[[{k0}]]", f"[[{k0 + 1}]]"
    va, vb = f"v{k0}", f"v{k0 + 1}"
    return {
        "rect": ('<rect id="p" {rel} wh="%s %s"/>' % (a, b), [(6, *SZI), (8, *SZI)], va, vb),
        "circle": ('<circle id="p" {rel} r="%s"/>' % a, [(3, *SZI)], mul("2.0", va), mul("2.0", va)),
        "ellipse": ('<ellipse id="p" {rel} rxy="%s %s"/>' % (a, b), [(3, *SZI), (4, *SZI)], mul("2.0", va), mul("2.0", vb)),
        # the placed element's own size is its size after dw / dh / dwh have been applied
        "rect-dwh": ('<rect id="p" {rel} wh="%s %s" dwh="4 6"/>' % (a, b), [(6, *SZI), (8, *SZI)], plus(va, "4.0"), plus(vb, "6.0")),
        "rect-dh": ('<rect id="p" {rel} wh="%s %s" dh="[[%d]]"/>' % (a, b, k0 + 2), [(6, *SZI), (8, *SZI), (4, 0, 32, 0)], va, plus(vb, f"v{k0 + 2}")),
        # dx / dy / dxy on the placed element shift it once, after the placement
        "ellipse-dxy": ('<ellipse id="p" {rel} rxy="%s %s" dxy="3 -2"/>' % (a, b), [(3, *SZI), (4, *SZI)], mul("2.0", va), mul("2.0", vb)),
        "ellipse-dy": ('<ellipse id="p" {rel} rxy="%s %s" dy="5"/>' % (a, b), [(3, *SZI), (4, *SZI)], mul("2.0", va), mul("2.0", vb)),
        "circle-dx": ('<circle id="p" {rel} r="%s" dx="3"/>' % a, [(3, *SZI)], mul("2.0", va), mul("2.0", va)),
        "rect-dxy": ('<rect id="p" {rel} wh="%s %s" dxy="3 -2"/>' % (a, b), [(6, *SZI), (8, *SZI)], va, vb),
        "rect-dw-pct": ('<rect id="p" {rel} wh="%s %s" dw="50%%"/>' % (a, b), [(6, 0, 256, 0), (8, *SZI)], mul("0.5", va), vb),
    }


SHIFT = {"ellipse-dxy": ("3.0", "(- 2.0)"), "ellipse-dy": ("0.0", "5.0"), "circle-dx": ("3.0", "0.0"), "rect-dxy": ("3.0", "(- 2.0)")}
LOCS = ["tl", "t", "tr", "r", "br", "b", "bl", "l", "c"]
EDGES = ["t", "r", "b", "l"]
PCTS = [0, 25, 50, 100, 150]
SCALARS = ["x", "x1", "x2", "cx", "y", "y1", "y2", "cy", "w", "width", "h", "height", "rx", "ry", "r"]
DIRS = "hHvV"


def templates(tier, seed):
    tds = []
    RK = list(ref_kinds())
    PK = ["rect", "circle", "ellipse"]
    for rk in RK:
        for ref in ("#r", "^"):
            for pk in PK + ["rect-dwh", "rect-dh", "rect-dw-pct"] + list(SHIFT):
                for d in DIRS:
                    for gap in ("none", "sym"):
                        tds.append(dict(fam="dir", rk=rk, ref=ref, pk=pk, d=d, gap=gap))
    for rk in RK:
        for ref in ("#r", "^"):
            for pk in PK + (["rect-dwh", "rect-dh"] + list(SHIFT) if ref == "#r" else []):
                for loc in LOCS:
                    for anchor in ["xy", "cxy"] + ["xy-loc:" + l for l in LOCS if l != "tl"]:
                        for delta in ("none", "one", "two"):
                            if ref == "^" and (anchor.startswith("xy-loc") and delta != "two"):
                                continue  # thinning: ^ differs from #id only in reference resolution
                            tds.append(dict(fam="loc", rk=rk, ref=ref, pk=pk, loc=loc, anchor=anchor, delta=delta))
    for rk in RK:
        for pk in PK:
            for e in EDGES:
                for off in ["abs"] + ["pct%d" % p for p in PCTS]:
                    for anchor in ("xy", "cxy"):
                        for delta in ("none", "two"):
                            tds.append(dict(fam="edge", rk=rk, ref="#r", pk=pk, edge=e, off=off, anchor=anchor, delta=delta))
    for rk in RK:
        for attr in ("x", "y", "cx", "cy", "x2", "y2"):
            for sc in SCALARS:
                for delta in ("none", "abs", "pct"):
                    tds.append(dict(fam="scalar", rk=rk, attr=attr, sc=sc, delta=delta))
            # other shapes, and elements positioned on ONE axis only (the other coordinate stays at its default)
            for pk in ("circle", "ellipse", "rect"):
                for other in ("given", "absent"):
                    for sc in ("@b", "@tr", "~x2", "~cy", "bare", "@l:o"):
                        for delta in ("none", "two") if sc.startswith("@") and ":" not in sc else ("none",):
                            if pk == "rect" and other == "given":
                                continue
                            tds.append(dict(fam="scalar1", rk=rk, attr=attr, sc=sc, delta=delta, pk=pk, other=other))
            tds.append(dict(fam="scalar", rk=rk, attr=attr, sc="bare", delta="none"))
            tds.append(dict(fam="scalar", rk=rk, attr=attr, sc="bare", delta="abs"))
            for loc in LOCS:
                tds.append(dict(fam="scalar", rk=rk, attr=attr, sc="@" + loc, delta="none"))
                tds.append(dict(fam="scalar", rk=rk, attr=attr, sc="@" + loc, delta="two"))
    for rk in RK:
        for form in ("wh", "wh-pct50", "wh-pct150", "wh-one", "wh-two", "w~h-pct25", "w~h", "h~w-abs", "dw-abs", "dh-abs", "dwh-abs", "dwh-one", "dw-pct50", "dwh-pct"):
            for pk in ("rect", "ellipse"):
                if pk == "ellipse" and form.startswith("d"):
                    continue  # dw/dh are only defined (docs, tests) for width/height-sized elements; not asserted for ellipses
                tds.append(dict(fam="size", rk=rk, form=form, pk=pk))
    for rk in ("rect", "circle", "line", "g"):
        for f1 in ("dir:h", "dir:V", "loc:br", "loc:c"):
            for f2 in ("dir:v", "dir:H", "loc:tl", "edge:b"):
                for ref2 in ("#m", "^"):
                    tds.append(dict(fam="chain", rk=rk, f1=f1, f2=f2, ref2=ref2))
    # the same chains written in every other document order (the middle element may have to wait for the first), with the middle
    # element also given by its centre (cxy + r)
    for rk in ("rect", "circle"):
        for f1 in ("dir:h", "loc:br", "cloc:br", "cloc:t"):
            for f2 in ("dir:v", "loc:tl", "edge:b"):
                for order in ("pmr", "mpr", "prm", "rpm", "mrp"):
                    tds.append(dict(fam="chain", rk=rk, f1=f1, f2=f2, ref2="#m", order=order))
            # the last element takes its SIZE from the middle one, whose own size is adjusted by dw / dh
            for f2 in ("size:wh", "size:pct", "size:w~h"):
                for order in ("rmp", "pmr", "mpr", "prm", "mrp"):
                    for mdw in (False, True):
                        tds.append(dict(fam="chain", rk=rk, f1=f1, f2=f2, ref2="#m", order=order, mdw=mdw))
    # offsets on elements that are not rendered (point, box): a lone dx or dy moves them like the pair does, and what is placed
    # against them follows
    for ph in ("point", "box"):
        for d in ("dx", "dy", "dxdy", "dxy"):
            for form in ("loc", "dir"):
                tds.append(dict(fam="phantom-offset", ph=ph, d=d, form=form))
    # element ids are XML names: letters of any script, digits, '_', '-', '.'; an id that extends another id is a different element
    for ident in ("größe", "nœud_1", "aé", "a1", "a_b", "a-b", "Ωmega", "图形", "a"):
        for form in ("loc", "dir", "size", "scalar"):
            tds.append(dict(fam="idforms", ident=ident, form=form))
    if tier == "quick":
        tds = sample_quota(tds, lambda t: (t["fam"], t.get("rk")), {"dir": 1000, "loc": 400, "edge": 150, "scalar": 200, "scalar1": 200, "size": 1000, "chain": 1000, "idforms": 100, "phantom-offset": 100}, seed)
    return tds


def twins(tier, seed):
    return [dict(fam="dir", rk="rect", ref="#r", pk="rect", d="V", gap="sym"), dict(fam="loc", rk="circle", ref="^", pk="ellipse", loc="br", anchor="xy-loc:t", delta="two"),
            dict(fam="edge", rk="rect", ref="#r", pk="rect", edge="b", off="abs", anchor="xy", delta="none"), dict(fam="scalar", rk="ellipse", attr="cx", sc="w", delta="abs"),
            dict(fam="size", rk="rect", form="wh-two", pk="rect"), dict(fam="chain", rk="rect", f1="dir:h", f2="loc:tl", ref2="^")]


def ref_box(o, rk, vis, vbox):
    """box of the referenced element: from its output geometry when it is rendered, else from the input values"""
    if not vis:
        return vbox()
    el = o.by_id("r")
    if el is None:
        raise KeyError("referenced element missing from output")
    return G.elem_box(o, el)


def anchor_point(pb, anchor):
    if anchor == "xy":
        return pb.x1, pb.y1
    if anchor == "cxy":
        return pb.cx, pb.cy
    return pb.loc(anchor.split(":")[1])


def std_check(build_obls, wrong):
    def check(r):
        if r.status != "ok":
            return [Obl("transform-ok", FAIL, ground=True, note=r.docs[0]["msg"][:200])]
        o = Out(r.output)
        p = o.by_id("p")
        if p is None:
            return [Obl("positioned-element-present", FAIL, ground=True)]
        try:
            pb = G.elem_box(o, p)
            obls = build_obls(o, pb)
        except KeyError as e:
            return [Obl("geometry-present", FAIL, ground=True, note=str(e))]
        bad = G.foreign_geom_attrs(o, p)
        obls.append(Obl("no-foreign-geometry-attrs", FAIL if bad else PASS, ground=True, note=",".join(bad)))
        return obls
    return check


def build(td, wrong=False):
    fam = td["fam"]
    RKS = ref_kinds()
    W = "1.0" if wrong else "0.0"   # deliberate error injected into the oracle for sensitivity twins
    if fam in ("dir", "loc", "edge"):
        rm, rvars, vbox, vis = RKS[td["rk"]]
        k0 = len(rvars)
        pm, pvars, pw, ph = pos_kinds(k0)[td["pk"]]
        shx, shy = SHIFT.get(td["pk"], ("0.0", "0.0"))
        vars_ = list(rvars) + list(pvars)
        ref = td["ref"]
        if fam == "dir":
            d = td["d"]
            if td["gap"] == "sym":
                kg = len(vars_)
                vars_.append((2, *DLT))
                rel = f'xy="{ref}|{d} [[{kg}]]"'
                g = f"v{kg}"
            else:
                rel = f'xy="{ref}|{d}"'
                g = "0.0"
            g = plus(g, W)

            def obls(o, pb):
                rb = ref_box(o, td["rk"], vis, vbox)
                exp = {"h": (plus(rb.x2, g), minus(rb.cy, half(ph))), "H": (minus(minus(rb.x1, g), pw), minus(rb.cy, half(ph))),
                       "v": (minus(rb.cx, half(pw)), plus(rb.y2, g)), "V": (minus(rb.cx, half(pw)), minus(minus(rb.y1, g), ph))}[d]
                return [Obl("x1", ne(pb.x1, plus(exp[0], shx))), Obl("y1", ne(pb.y1, plus(exp[1], shy))), Obl("w", ne(pb.w, pw)), Obl("h", ne(pb.h, ph))]
            doc = "<svg>" + rm + pm.replace("{rel}", rel) + "</svg>"
            return Template(f"dir/{td['rk']}/{ref}/{td['pk']}/{d}/{td['gap']}", doc, vars_, std_check(obls, wrong), family="direction", role=f"C09/dir/{d}", cap=12)
        # loc / edge
        anchor = td["anchor"]
        if fam == "loc":
            locs = td["loc"]
        else:
            e = td["edge"]
            if td["off"] == "abs":
                ko = len(vars_)
                vars_.append((2, *DLT))
                locs = f"{e}:[[{ko}]]"
            else:
                locs = f"{e}:{td['off'][3:]}%"
        dx = dy = "0.0"
        dtxt = ""
        if td["delta"] == "one":
            kd = len(vars_)
            vars_.append((5, *DLT))
            dtxt = f" [[{kd}]]"
            dx = dy = f"v{kd}"
        elif td["delta"] == "two":
            kd = len(vars_)
            vars_ += [(5, *DLT), (-7, *DLT)]
            dtxt = f" [[{kd}]] [[{kd + 1}]]"
            dx, dy = f"v{kd}", f"v{kd + 1}"
        if anchor == "xy":
            rel = f'xy="{ref}@{locs}{dtxt}"'
        elif anchor == "cxy":
            rel = f'cxy="{ref}@{locs}{dtxt}"'
        else:
            rel = f'xy="{ref}@{locs}{dtxt}" xy-loc="{anchor.split(":")[1]}"'

        def obls(o, pb):
            rb = ref_box(o, td["rk"], vis, vbox)
            if fam == "loc":
                lx, ly = rb.loc(td["loc"])
            elif td["off"] == "abs":
                lx, ly = rb.edge(td["edge"], f"v{ko}")
            else:
                lx, ly = rb.edge(td["edge"], Fraction(int(td["off"][3:]), 100), pct=True)
            ax, ay = anchor_point(pb, anchor)
            return [Obl("anchor-x", ne(ax, plus(lx, dx, W, shx))), Obl("anchor-y", ne(ay, plus(ly, dy, shy))), Obl("w", ne(pb.w, pw)), Obl("h", ne(pb.h, ph))]
        doc = "<svg>" + rm + pm.replace("{rel}", rel) + "</svg>"
        name = f"{fam}/{td['rk']}/{ref}/{td['pk']}/{locs}/{anchor}/{td['delta']}"
        return Template(name, doc, vars_, std_check(obls, wrong), family="location" if fam == "loc" else "edge-offset", role=f"C09/{fam}", cap=16)
    if fam == "scalar":
        rm, rvars, vbox, vis = RKS[td["rk"]]
        vars_ = list(rvars)
        k0 = len(vars_)
        vars_ += [(6, *SZI), (8, *SZI), (40, *POS)]   # P's width/height, and its position on the other axis
        attr, sc = td["attr"], td["sc"]
        dl = ""
        kd = None
        if td["delta"] == "abs":
            kd = len(vars_)
            vars_.append((5, *DLT))
            dl = f" [[{kd}]]"
        elif td["delta"] == "pct":
            dl = " 50%"
        elif td["delta"] == "two":
            kd = len(vars_)
            vars_ += [(5, *DLT), (-7, *DLT)]
            dl = f" [[{kd}]] [[{kd + 1}]]"
        if sc == "bare":
            val = "#r" + dl
        elif sc.startswith("@"):
            val = "#r" + sc + dl
        else:
            val = f"#r~{sc}" + dl
        xaxis = attr in ("x", "cx", "x2")
        other = f'y="[[{k0 + 2}]]"' if xaxis else f'x="[[{k0 + 2}]]"'
        pm = f'<rect id="p" {attr}="{val}" {other} wh="[[{k0}]] [[{k0 + 1}]]"/>'
        pw, ph = f"v{k0}", f"v{k0 + 1}"

        def obls(o, pb):
            rb = ref_box(o, td["rk"], vis, vbox)
            if sc == "bare":
                exp = rb.scalar(attr)
            elif sc.startswith("@"):
                lx, ly = rb.loc(sc[1:])
                exp = lx if xaxis else ly
            else:
                exp = rb.scalar(sc)
            if td["delta"] == "abs":
                exp = plus(exp, f"v{kd}")
            elif td["delta"] == "pct":
                exp = mul(exp, "0.5")
            elif td["delta"] == "two":
                exp = plus(exp, f"v{kd}" if xaxis else f"v{kd + 1}")
            exp = plus(exp, W)
            got = {"x": pb.x1, "cx": pb.cx, "x2": pb.x2, "y": pb.y1, "cy": pb.cy, "y2": pb.y2}[attr]
            oth = pb.y1 if xaxis else pb.x1
            return [Obl(f"{attr}", ne(got, exp)), Obl("other-axis", ne(oth, f"v{k0 + 2}")), Obl("w", ne(pb.w, pw)), Obl("h", ne(pb.h, ph))]
        doc = "<svg>" + rm + pm + "</svg>"
        return Template(f"scalar/{td['rk']}/{attr}/{sc}/{td['delta']}", doc, vars_, std_check(obls, wrong), family="scalar", role=f"C09/scalar/{'loc' if sc.startswith('@') else 'ss'}", cap=12)
    if fam == "scalar1":
        rm, rvars, vbox, vis = RKS[td["rk"]]
        vars_ = list(rvars)
        k0 = len(vars_)
        vars_ += [(6, *SZI), (8, *SZI), (40, *POS)]
        attr, sc, pk = td["attr"], td["sc"], td["pk"]
        xaxis = attr in ("x", "cx", "x2")
        dl, kd, ko = "", None, None
        if td["delta"] == "two":
            kd = len(vars_)
            vars_ += [(5, *DLT), (-7, *DLT)]
            dl = f" [[{kd}]] [[{kd + 1}]]"
        if sc == "bare":
            val = "#r"
        elif sc == "@l:o":
            ko = len(vars_)
            vars_.append((2, *DLT))
            val = f"#r@l:[[{ko}]]"
        elif sc.startswith("@"):
            val = "#r" + sc + dl
        else:
            val = "#r" + sc
        other_attr = ""
        if td["other"] == "given":
            other_attr = (f' cy="[[{k0 + 2}]]"' if xaxis else f' cx="[[{k0 + 2}]]"')
        size = {"rect": f'wh="[[{k0}]] [[{k0 + 1}]]"', "circle": f'r="[[{k0}]]"', "ellipse": f'rxy="[[{k0}]] [[{k0 + 1}]]"'}[pk]
        pm = f'<{pk} id="p" {attr}="{val}"{other_attr} {size}/>'
        pw = f"v{k0}" if pk == "rect" else mul("2.0", f"v{k0}")
        ph = (f"v{k0 + 1}" if pk == "rect" else mul("2.0", f"v{k0}") if pk == "circle" else mul("2.0", f"v{k0 + 1}"))

        def obls(o, pb):
            rb = ref_box(o, td["rk"], vis, vbox)
            if sc == "bare":
                exp = rb.scalar(attr)
            elif sc == "@l:o":
                lx, ly = rb.edge("l", f"v{ko}")
                exp = lx if xaxis else ly
            elif sc.startswith("@"):
                lx, ly = rb.loc(sc[1:])
                exp = lx if xaxis else ly
            else:
                exp = rb.scalar(sc[1:])
            if td["delta"] == "two":
                exp = plus(exp, f"v{kd}" if xaxis else f"v{kd + 1}")
            exp = plus(exp, W)
            got = {"x": pb.x1, "cx": pb.cx, "x2": pb.x2, "y": pb.y1, "cy": pb.cy, "y2": pb.y2}[attr]
            res = [Obl(f"{attr}", ne(got, exp)), Obl("w", ne(pb.w, pw)), Obl("h", ne(pb.h, ph))]
            if td["other"] == "given":
                res.append(Obl("other-axis", ne(pb.cy if xaxis else pb.cx, f"v{k0 + 2}")))
            else:
                # not positioned on the other axis: SVG default (coordinate 0 for the shape's native position attribute)
                p = o.by_id("p")
                nat = {"rect": ("y" if xaxis else "x"), "circle": ("cy" if xaxis else "cx"), "ellipse": ("cy" if xaxis else "cx")}[pk]
                res.append(Obl("other-axis-default", ne(o.num(p, nat), "0.0")))
            return res
        doc = "<svg>" + rm + pm + "</svg>"
        return Template(f"scalar1/{td['rk']}/{pk}/{attr}/{sc}/{td['delta']}/{td['other']}", doc, vars_, std_check(obls, wrong), family="scalar-one-axis", role=f"C09/scalar1/{pk}", cap=12)
    if fam == "size":
        rm, rvars, vbox, vis = RKS[td["rk"]]
        vars_ = list(rvars)
        k0 = len(vars_)
        vars_ += [(40, *POS), (50, *POS)]
        form, pk = td["form"], td["pk"]
        px, py = f"v{k0}", f"v{k0 + 1}"
        extra = []
        ka = len(vars_)

        def own():
            vars_.extend([(6, *SZI), (8, *SZI)])
            return f"[[{ka}]] [[{ka + 1}]]", f"v{ka}", f"v{ka + 1}"
        if form == "wh":
            sz = 'wh="#r"'
            expw = lambda rb: (rb.w, rb.h)
        elif form.startswith("wh-pct"):
            p = int(form[6:])
            sz = f'wh="#r {p}%"'
            expw = lambda rb: (mul(rb.w, num(Fraction(p, 100))), mul(rb.h, num(Fraction(p, 100))))
        elif form == "wh-one":
            vars_.append((4, *DLT))
            sz = f'wh="#r [[{ka}]]"'
            expw = lambda rb: (plus(rb.w, f"v{ka}"), plus(rb.h, f"v{ka}"))
        elif form == "wh-two":
            vars_ += [(4, *DLT), (-2, *DLT)]
            sz = f'wh="#r [[{ka}]] [[{ka + 1}]]"'
            expw = lambda rb: (plus(rb.w, f"v{ka}"), plus(rb.h, f"v{ka + 1}"))
        elif form == "w~h-pct25":
            vars_.append((8, *SZI))
            sz = f'width="#r~h 25%" height="[[{ka}]]"'
            expw = lambda rb: (mul(rb.h, "0.25"), f"v{ka}")
        elif form == "w~h":
            vars_.append((8, *SZI))
            sz = f'width="#r~h" height="[[{ka}]]"'
            expw = lambda rb: (rb.h, f"v{ka}")
        elif form == "h~w-abs":
            vars_ += [(8, *SZI), (3, *DLT)]
            sz = f'width="[[{ka}]]" height="#r~w [[{ka + 1}]]"'
            expw = lambda rb: (f"v{ka}", plus(rb.w, f"v{ka + 1}"))
        else:
            txt, ow, oh = own()
            kd = len(vars_)
            if form == "dw-abs":
                vars_.append((4, *DLT))
                sz = f'wh="{txt}" dw="[[{kd}]]"'
                expw = lambda rb: (plus(ow, f"v{kd}"), oh)
            elif form == "dh-abs":
                vars_.append((4, *DLT))
                sz = f'wh="{txt}" dh="[[{kd}]]"'
                expw = lambda rb: (ow, plus(oh, f"v{kd}"))
            elif form == "dwh-abs":
                vars_ += [(4, *DLT), (-2, *DLT)]
                sz = f'wh="{txt}" dwh="[[{kd}]] [[{kd + 1}]]"'
                expw = lambda rb: (plus(ow, f"v{kd}"), plus(oh, f"v{kd + 1}"))
            elif form == "dwh-one":
                vars_.append((4, *DLT))
                sz = f'wh="{txt}" dwh="[[{kd}]]"'
                expw = lambda rb: (plus(ow, f"v{kd}"), plus(oh, f"v{kd}"))
            elif form == "dw-pct50":
                sz = f'wh="{txt}" dw="50%"'
                expw = lambda rb: (mul(ow, "0.5"), oh)
            else:
                sz = f'wh="{txt}" dwh="150% 25%"'
                expw = lambda rb: (mul(ow, "1.5"), mul(oh, "0.25"))
        if pk == "rect":
            pm = f'<rect id="p" xy="[[{k0}]] [[{k0 + 1}]]" {sz}/>'
        else:
            pm = f'<ellipse id="p" xy="[[{k0}]] [[{k0 + 1}]]" {sz}/>'

        def obls(o, pb):
            rb = ref_box(o, td["rk"], vis, vbox)
            ew, eh = expw(rb)
            return [Obl("x1", ne(pb.x1, px)), Obl("y1", ne(pb.y1, py)), Obl("w", ne(pb.w, plus(ew, W))), Obl("h", ne(pb.h, eh))]
        doc = "<svg>" + rm + pm + "</svg>"
        # sizes may come out negative for negative deltas: both sides agree symbolically, nothing else is asserted
        return Template(f"size/{td['rk']}/{form}/{pk}", doc, vars_, std_check(obls, wrong), family="relative-size", role=f"C09/size/{form.split('-')[0]}", cap=12)
    if fam == "phantom-offset":
        ph, d, form = td["ph"], td["d"], td["form"]
        vars_ = [(7, *POS), (-4, *POS), (20, *SZI), (10, *SZI), (3, *DLT), (-5, *DLT)]
        dx, dy = ("v4" if "x" in d else "0.0"), ("v5" if (d in ("dy", "dxdy", "dxy")) else "0.0")
        if d == "dxy":
            dx = "v4"
        da = {"dx": 'dx="[[4]]"', "dy": 'dy="[[5]]"', "dxdy": 'dx="[[4]]" dy="[[5]]"', "dxy": 'dxy="[[4]] [[5]]"'}[d]
        a = '<rect id="a" xy="[[0]] [[1]]" wh="[[2]] [[3]]"/>'
        ab = G.Box("v0", "v1", plus("v0", "v2"), plus("v1", "v3"))
        if ph == "point":
            pm = f'<point id="q" xy="#a@br" {da}/>'
            qb = G.Box(plus(ab.x2, dx), plus(ab.y2, dy), plus(ab.x2, dx), plus(ab.y2, dy))
        else:
            pm = f'<box id="q" xy="#a|h 5" wh="10 6" {da}/>'
            qx, qy = plus(plus(ab.x2, "5.0"), dx), plus(minus(ab.cy, "3.0"), dy)
            qb = G.Box(qx, qy, plus(qx, "10.0"), plus(qy, "6.0"))
        p = '<rect id="p" xy="#q@br" wh="3 4"/>' if form == "loc" else '<rect id="p" xy="#q|v 2" wh="3 4"/>'

        def obls_ph(o, pb):
            if form == "loc":
                return [Obl("x1", ne(pb.x1, plus(qb.x2, W))), Obl("y1", ne(pb.y1, qb.y2))]
            return [Obl("x1", ne(pb.x1, plus(minus(qb.cx, "1.5"), W))), Obl("y1", ne(pb.y1, plus(qb.y2, "2.0")))]
        return Template(f"phantom-offset/{ph}/{d}/{form}", "<svg>" + a + pm + p + "</svg>", vars_, std_check(obls_ph, wrong), family="phantom-offset", role="C09/phantom-offset", cap=4)
    if fam == "idforms":
        ident, form = td["ident"], td["form"]
        vars_ = [(7, *POS), (-4, *POS), (20, *SZI), (10, *SZI)]
        decoy = '<rect id="a" xy="500 500" wh="77 33"/>' if ident != "a" else '<rect id="b" xy="500 500" wh="77 33"/>'
        target = f'<rect id="{ident}" xy="[[0]] [[1]]" wh="[[2]] [[3]]"/>'
        pm = {"loc": f'<rect id="p" xy="#{ident}@br" wh="3 4"/>', "dir": f'<rect id="p" xy="#{ident}|h 2" wh="3 4"/>',
              "size": f'<rect id="p" xy="1 2" wh="#{ident} 50%"/>', "scalar": f'<rect id="p" x="#{ident}~x2" y="#{ident}~cy" wh="3 4"/>'}[form]
        tb = G.Box("v0", "v1", plus("v0", "v2"), plus("v1", "v3"))

        def obls_id(o, pb):
            if form == "loc":
                return [Obl("x1", ne(pb.x1, plus(tb.x2, W))), Obl("y1", ne(pb.y1, tb.y2))]
            if form == "dir":
                return [Obl("x1", ne(pb.x1, plus(plus(tb.x2, "2.0"), W))), Obl("y1", ne(pb.y1, minus(tb.cy, "2.0")))]
            if form == "size":
                return [Obl("w", ne(pb.w, plus(half("v2"), W))), Obl("h", ne(pb.h, half("v3")))]
            return [Obl("x1", ne(pb.x1, plus(tb.x2, W))), Obl("y1", ne(pb.y1, tb.cy))]
        doc = "<svg>" + decoy + target + pm + "</svg>"
        return Template(f"idforms/{ident}/{form}", doc, vars_, std_check(obls_id, wrong), family="id-forms", role="C09/idforms", cap=4)
    if fam == "chain":
        rm, rvars, vbox, vis = RKS[td["rk"]]
        vars_ = list(rvars)
        km = len(vars_)
        vars_ += [(6, *SZI), (8, *SZI)]
        kp = len(vars_)
        vars_ += [(4, *SZI), (2, *SZI)]
        kg = len(vars_)
        vars_ += [(2, *DLT), (3, *DLT)]

        def rel(form, ref, g):
            kind, arg = form.split(":")
            if kind == "dir":
                return f'xy="{ref}|{arg} [[{g}]]"'
            if kind == "loc":
                return f'xy="{ref}@{arg} [[{g}]]"'
            if kind == "cloc":
                return f'cxy="{ref}@{arg} [[{g}]]"'
            return f'xy="{ref}@{arg}:[[{g}]]"'

        def place(form, rb, w, h, g):
            kind, arg = form.split(":")
            if kind == "dir":
                return {"h": (plus(rb.x2, g), minus(rb.cy, half(h))), "H": (minus(minus(rb.x1, g), w), minus(rb.cy, half(h))),
                        "v": (minus(rb.cx, half(w)), plus(rb.y2, g)), "V": (minus(rb.cx, half(w)), minus(minus(rb.y1, g), h))}[arg]
            if kind == "loc":
                lx, ly = rb.loc(arg)
                return plus(lx, g), plus(ly, g)
            return rb.edge(arg, g)
        mdw = td.get("mdw") and not td["f1"].startswith("cloc")
        kdw = len(vars_)
        if mdw:
            vars_ += [(3, 0, 16, 0)]
        if td["f1"].startswith("cloc"):
            m = f'<circle id="m" {rel(td["f1"], "#r", kg)} r="[[{km}]]"/>'
        elif mdw:
            m = f'<rect id="m" {rel(td["f1"], "#r", kg)} width="[[{km}]]" height="[[{km + 1}]]" dw="[[{kdw}]]" dh="2"/>'
        else:
            m = f'<rect id="m" {rel(td["f1"], "#r", kg)} wh="[[{km}]] [[{km + 1}]]"/>'
        if td["f2"].startswith("size:"):
            szform = {"wh": 'wh="#m"', "pct": 'wh="#m 50%"', "w~h": 'width="#m~h" height="#m~w"'}[td["f2"][5:]]
            p = f'<rect id="p" xy="[[{kp}]] [[{kp + 1}]]" {szform}/>'
        else:
            p = f'<rect id="p" {rel(td["f2"], td["ref2"], kg + 1)} wh="[[{kp}]] [[{kp + 1}]]"/>'

        def obls(o, pb):
            rb = ref_box(o, td["rk"], vis, vbox)
            if td["f1"].startswith("cloc"):
                lx, ly = rb.loc(td["f1"].split(":")[1])
                mx, my = minus(plus(lx, f"v{kg}"), f"v{km}"), minus(plus(ly, f"v{kg}"), f"v{km}")
                mb = G.Box(mx, my, plus(mx, mul("2.0", f"v{km}")), plus(my, mul("2.0", f"v{km}")))
            else:
                mw, mh = (plus(f"v{km}", f"v{kdw}"), plus(f"v{km + 1}", "2.0")) if mdw else (f"v{km}", f"v{km + 1}")
                mx, my = place(td["f1"], rb, mw, mh, f"v{kg}")
                mb = G.Box(mx, my, plus(mx, mw), plus(my, mh))
            if td["f2"].startswith("size:"):
                mel = G.elem_box(o, o.by_id("m"))
                ew, eh = {"wh": (mb.w, mb.h), "pct": (half(mb.w), half(mb.h)), "w~h": (mb.h, mb.w)}[td["f2"][5:]]
                return [Obl("mid-x1", ne(mel.x1, mx)), Obl("mid-y1", ne(mel.y1, my)), Obl("mid-w", ne(mel.w, mb.w)), Obl("x1", ne(pb.x1, plus(f"v{kp}", W))), Obl("y1", ne(pb.y1, f"v{kp + 1}")),
                        Obl("w", ne(pb.w, ew)), Obl("h", ne(pb.h, eh))]
            ex, ey = place(td["f2"], mb, f"v{kp}", f"v{kp + 1}", f"v{kg + 1}")
            mel = G.elem_box(o, o.by_id("m"))
            return [Obl("mid-x1", ne(mel.x1, mx)), Obl("mid-y1", ne(mel.y1, my)), Obl("x1", ne(pb.x1, plus(ex, W))), Obl("y1", ne(pb.y1, ey)),
                    Obl("w", ne(pb.w, f"v{kp}")), Obl("h", ne(pb.h, f"v{kp + 1}"))]
        parts = {"r": rm, "m": m, "p": p}
        doc = "<svg>" + "".join(parts[c] for c in td.get("order", "rmp")) + "</svg>"
        return Template(f"chain/{td['rk']}/{td['f1']}/{td['f2']}/{td['ref2']}/{td.get('order', 'rmp')}" + ("/mdw" if mdw else ""), doc, vars_, std_check(obls, wrong), family="chain", role="C09/chain", cap=16)
    raise ValueError(fam)
