"""C14 Expressions evaluate with conventional arithmetic semantics, exactly once (DESIGN.md §5, Appendix A).
Operator chains are decided under *uninterpreted float operations*: unsat means the implementation built the same
operation tree as the reference evaluator, hence bit-identical IEEE results for every input."""
import itertools, random
from fractions import Fraction
from vlib.engine import *  # noqa
from vlib.harness import sample_quota

PROP = "C14"
LEVEL = "model_checking"
ANCHOR_PREFIXES = ["expression::", "functions::", "types::fstr", "context::"]
BOUNDS = ("operator trees of 2-4 binary operators over + - * / % in every parenthesisation shape, unary minus on leaves and sub-trees, rendered with minimal parentheses; operands symbolic "
          "(literal tokens, scalar variables, list variables); comparison (eq ne gt ge lt le) and logical (and or xor) word operators over arithmetic sub-terms, both outcomes of every comparison; "
          "46 built-in functions applied to symbolic arguments (transcendental ones as uninterpreted named operations, degrees conversion included); contexts: pass-through attribute, geometry attribute, "
          "text, <var>, comment, <if test>, loop while; malformed expressions, the single-evaluation of random()/randint() (also inside loop count / while / for-data control expressions), number formatting around the 3-decimal rounding boundary and comparisons over NaN / infinities as ground queries; operand values k/2 in [-64,64]; non-finite results printed / stored / compared; condition forms (tiny values, lists, strings); comparisons between numbers that agree to three decimals; the same expression text repeated in one value; reuse attributes overriding target attributes; ground single-precision families: 31 fixed and 12 / 120 generated trees (depth <= 3 over + - * / % min max abs clamp mix, magnitudes up to 1e8, minimal parentheses) against an exact reference evaluator; over- and under-arity calls of every fixed-arity built-in; variables holding the text of a random call referenced 2-4 times in one expression / list / test")
ASSUMPTIONS = ["reference grammar: list := expr (',' expr)*; logical := comparison (('and'|'or'|'xor') comparison)*; comparison := term (cmp term)?; term := factor (('+'|'-') factor)*; "
               "factor := primary (('*'|'/'|'%') primary)*; primary := number | variable | '(' list ')' | '-' primary | f '(' list ')' (docs/expressions.md)",
               "'%' is the Euclidean remainder (non-negative); trigonometric functions take/return degrees; mix(a,b,c) = a*(1-c)+b*c (GLSL)",
               "under uninterpreted float operations x+y and y+x are different terms: the reference evaluates strictly left to right, as the documented associativity prescribes"]

V = (-64, 64, 1)
OPS = ["+", "-", "*", "/", "%"]
PREC = {"+": 1, "-": 1, "*": 2, "/": 2, "%": 2}
EUF = {"+": "fadd", "-": "fsub", "*": "fmul", "/": "fdiv"}


# ---------------------------------------------------------------- trees
def shapes(n):
    """all binary tree shapes with n internal nodes; leaves are None"""
    if n == 0:
        return [None]
    out = []
    for k in range(n):
        for l in shapes(k):
            for r in shapes(n - 1 - k):
                out.append((l, r))
    return out


def fill(shape, ops, leaves):
    """assign operators (pre-order) and leaf names (in order)"""
    it_ops, it_leaves = iter(ops), iter(leaves)

    def go(s):
        if s is None:
            return next(it_leaves)
        op = next(it_ops)
        l = go(s[0])
        r = go(s[1])
        return (op, l, r)
    return go(shape)


def render(t, parent_prec=0, right=False):
    if isinstance(t, str):
        return t
    if t[0] == "neg":
        inner = render(t[1], 3)
        return "-" + inner
    op, l, r = t
    p = PREC[op]
    s = f"{render(l, p)} {op} {render(r, p, True)}"
    if p < parent_prec or (p == parent_prec and right):
        return f"({s})"
    return s


def ref_euf(t, leafmap):
    if isinstance(t, str):
        return leafmap[t]
    if t[0] == "neg":
        return f"(fneg {ref_euf(t[1], leafmap)})"
    op, l, r = t
    a, b = ref_euf(l, leafmap), ref_euf(r, leafmap)
    if op == "%":
        return f"(fun2 {app_id('rem_euclid')} {a} {b})"
    return f"({EUF[op]} {a} {b})"


def ref_real(t, leafmap):
    if isinstance(t, str):
        return leafmap[t]
    if t[0] == "neg":
        return neg(ref_real(t[1], leafmap))
    op, l, r = t
    a, b = ref_real(l, leafmap), ref_real(r, leafmap)
    return {"+": plus(a, b), "-": minus(a, b), "*": mul(a, b), "/": div(a, b), "%": f"(reuclid {a} {b})"}[op]


def has_zero_divisor_guard(t, leafmap):
    """conjunction stating that no divisor in the tree is zero (for the concrete replay in real arithmetic)"""
    if isinstance(t, str):
        return []
    if t[0] == "neg":
        return has_zero_divisor_guard(t[1], leafmap)
    g = has_zero_divisor_guard(t[1], leafmap) + has_zero_divisor_guard(t[2], leafmap)
    if t[0] in ("/", "%"):
        g.append(ne(ref_real(t[2], leafmap), "0.0"))
    return g


LEAVES = ["A", "B", "C", "D", "E"]


def templates(tier, seed):
    tds = []
    rnd = random.Random(5)
    for n in (2, 3):
        for si, sh in enumerate(shapes(n)):
            for ops in itertools.product(OPS, repeat=n):
                tds.append(dict(fam="chain", n=n, shape=si, ops=list(ops), neg=None, ctx="attr"))
    for si, sh in enumerate(shapes(4)):
        if tier == "thorough":
            for ops in itertools.product(OPS, repeat=4):
                tds.append(dict(fam="chain", n=4, shape=si, ops=list(ops), neg=None, ctx="attr"))
        else:
            rnd4 = random.Random(5 + seed + si)
            for _ in range(12):
                tds.append(dict(fam="chain", n=4, shape=si, ops=[rnd4.choice(OPS) for _ in range(4)], neg=None, ctx="attr"))
    for n in (1, 2):
        for si, sh in enumerate(shapes(n)):
            for ops in itertools.product(OPS, repeat=n):
                for negpos in ("leaf0", "leaf1", "leaflast", "whole", "inner"):
                    tds.append(dict(fam="chain", n=n, shape=si, ops=list(ops), neg=negpos, ctx="attr"))
    for ctx in ("geom", "text", "var", "comment", "varleaf", "listvar"):
        for ops in (["+", "*"], ["-", "-"], ["/", "+"], ["%", "-"], ["*", "%"]):
            for si in range(2):
                tds.append(dict(fam="chain", n=2, shape=si, ops=ops, neg=None, ctx=ctx))
    for cmp_ in ("eq", "ne", "gt", "ge", "lt", "le"):
        for form in ("plain", "arith", "logic-and", "logic-or", "logic-xor"):
            for ctx in ("attr", "if", "while"):
                if ctx != "attr" and form not in ("plain", "arith"):
                    continue
                tds.append(dict(fam="cmp", cmp=cmp_, form=form, ctx=ctx))
    for f in FUNCS:
        tds.append(dict(fam="func", f=f))
    for m in MALFORMED:
        tds.append(dict(fam="malformed", case=m))
    for v in RANDOM_VARIANTS:
        tds.append(dict(fam="random-once", variant=v))
    for i in range(0, len(FORMAT_CASES), 12):
        tds.append(dict(fam="format", lo=i, hi=min(i + 12, len(FORMAT_CASES))))
    for c in SPECIAL_CMP:
        tds.append(dict(fam="special", expr=c[0], want=c[1]))
    for i in range(0, len(ROUNDING_FIXED), 8):
        tds.append(dict(fam="rounding", fixed=[i, min(i + 8, len(ROUNDING_FIXED))], gseed=None))
    for g in range(12 if tier == "quick" else 120):
        tds.append(dict(fam="rounding", fixed=None, gseed=1000 * seed + g))
    for c in CLOSE_CMP:
        tds.append(dict(fam="special", expr=c[0], want=c[1]))
    for c in NONFINITE:
        for ctx in ("attr", "var", "text", "geom-free"):
            tds.append(dict(fam="nonfinite", expr=c[0], want=c[1], ctx=ctx))
    for c in COND_CASES:
        for form in ("if", "while", "until"):
            tds.append(dict(fam="cond", test=c[0], want=c[1], form=form))
    return tds


def twins(tier, seed):
    return [dict(fam="chain", n=2, shape=0, ops=["-", "-"], neg=None, ctx="attr"), dict(fam="cmp", cmp="lt", form="arith", ctx="attr"), dict(fam="func", f="mix")]


# ---------------------------------------------------------------- built-in functions: name -> (expression text over A,B,C, reference list of terms)
def _f1(name):
    return lambda a: f"(fun1 {app_id(name)} {a})"


def _f2(name):
    return lambda a, b: f"(fun2 {app_id(name)} {a} {b})"


RAD, DEG = _f1("to_radians"), _f1("to_degrees")
FUNCS = {
    "abs": ("abs(A)", lambda A, B, C: [f"(rabs {A})"]),
    "ceil": ("ceil(A)", lambda A, B, C: [f"(rceil {A})"]),
    "floor": ("floor(A)", lambda A, B, C: [f"(rfloor {A})"]),
    "fract": ("fract(A)", lambda A, B, C: [_f1("fract")(A)]),
    "sign": ("sign(A)", lambda A, B, C: [ite(eq(A, "0.0"), "0.0", ite(gt(A, "0.0"), "1.0", "(- 1.0)"))]),
    "divmod": ("divmod(A, B)", lambda A, B, C: [_f2("div_euclid")(A, B), _f2("rem_euclid")(A, B)]),
    "sqrt": ("sqrt(A)", lambda A, B, C: [_f1("sqrt")(A)]),
    "log": ("log(A)", lambda A, B, C: [_f1("ln")(A)]),
    "exp": ("exp(A)", lambda A, B, C: [_f1("exp")(A)]),
    "pow": ("pow(A, B)", lambda A, B, C: [_f2("powf")(A, B)]),
    "sin": ("sin(A)", lambda A, B, C: [_f1("sin")(RAD(A))]),
    "cos": ("cos(A)", lambda A, B, C: [_f1("cos")(RAD(A))]),
    "tan": ("tan(A)", lambda A, B, C: [_f1("tan")(RAD(A))]),
    "asin": ("asin(A)", lambda A, B, C: [DEG(_f1("asin")(A))]),
    "acos": ("acos(A)", lambda A, B, C: [DEG(_f1("acos")(A))]),
    "atan": ("atan(A)", lambda A, B, C: [DEG(_f1("atan")(A))]),
    "min2": ("min(A, B)", lambda A, B, C: [rmin(A, B)]),
    "min3": ("min(A, B, C)", lambda A, B, C: [rmin(A, B, C)]),
    "max2": ("max(A, B)", lambda A, B, C: [rmax(A, B)]),
    "max3": ("max(C, A, B)", lambda A, B, C: [rmax(A, B, C)]),
    "sum": ("sum(A, B, C)", lambda A, B, C: [plus(A, B, C)]),
    "product": ("product(A, B, C)", lambda A, B, C: [mul(mul(A, B), C)]),
    "mean2": ("mean(A, B)", lambda A, B, C: [half(plus(A, B))]),
    "mean3": ("mean(A, B, C)", lambda A, B, C: [div(plus(A, B, C), "3.0")]),
    "clamp": ("clamp(A, B, C)", lambda A, B, C: [rmin(rmax(A, B), C)]),
    "mix": ("mix(A, B, C)", lambda A, B, C: [plus(mul(A, minus("1.0", C)), mul(B, C))]),
    "eq": ("eq(A, B)", lambda A, B, C: [ite(eq(A, B), "1.0", "0.0")]),
    "ne": ("ne(A, B)", lambda A, B, C: [ite(eq(A, B), "0.0", "1.0")]),
    "lt": ("lt(A, B)", lambda A, B, C: [ite(lt(A, B), "1.0", "0.0")]),
    "le": ("le(A, B)", lambda A, B, C: [ite(le(A, B), "1.0", "0.0")]),
    "gt": ("gt(A, B)", lambda A, B, C: [ite(gt(A, B), "1.0", "0.0")]),
    "ge": ("ge(A, B)", lambda A, B, C: [ite(ge(A, B), "1.0", "0.0")]),
    "if": ("if(A, B, C)", lambda A, B, C: [ite(ne(A, "0.0"), B, C)]),
    "not": ("not(A)", lambda A, B, C: [ite(eq(A, "0.0"), "1.0", "0.0")]),
    "and": ("and(A, B)", lambda A, B, C: [ite(and_(ne(A, "0.0"), ne(B, "0.0")), "1.0", "0.0")]),
    "or": ("or(A, B)", lambda A, B, C: [ite(or_(ne(A, "0.0"), ne(B, "0.0")), "1.0", "0.0")]),
    "xor": ("xor(A, B)", lambda A, B, C: [ite(ne(A, "0.0"), ite(ne(B, "0.0"), "0.0", "1.0"), ite(ne(B, "0.0"), "1.0", "0.0"))]),
    "swap": ("swap(A, B)", lambda A, B, C: [B, A]),
    "r2p": ("r2p(A, B)", lambda A, B, C: [_f2("hypot")(A, B), DEG(_f2("atan2")(B, A))]),
    "p2r": ("p2r(A, B)", lambda A, B, C: [mul(A, _f1("cos")(RAD(B))), mul(A, _f1("sin")(RAD(B)))]),
    "select0": ("select(0, A, B, C)", lambda A, B, C: [A]),
    "select2": ("select(2, A, B, C)", lambda A, B, C: [C]),
    "addv": ("addv(A, B, C, A)", lambda A, B, C: [plus(A, C), plus(B, A)]),
    "subv": ("subv(A, B, C, A)", lambda A, B, C: [minus(A, C), minus(B, A)]),
    "scalev": ("scalev(A, B, C)", lambda A, B, C: [mul(A, B), mul(A, C)]),
    "head": ("head(A, B, C)", lambda A, B, C: [A]),
    "tail": ("tail(A, B, C)", lambda A, B, C: [B, C]),
    "empty": ("empty(A)", lambda A, B, C: ["0.0"]),
    "empty0": ("empty()", lambda A, B, C: ["1.0"]),
    "count": ("count(A, B, C)", lambda A, B, C: ["3.0"]),
    "in": ("in(A, B, C)", lambda A, B, C: [ite(or_(eq(A, B), eq(A, C)), "1.0", "0.0")]),
    "nested": ("max(abs(A), min(B, C)) + mix(A, B, 0.5)", lambda A, B, C: [plus(rmax(f"(rabs {A})", rmin(B, C)), plus(mul(A, "0.5"), mul(B, "0.5")))]),
}

MALFORMED = {
    "unbalanced-open": "{{(1 + [[0]]}}", "unbalanced-close": "{{1 + [[0]])}}", "unknown-function": "{{frobnicate([[0]])}}", "arity-abs": "{{abs([[0]], 2)}}", "arity-pow": "{{pow([[0]])}}",
    "arity-clamp": "{{clamp([[0]], 1)}}", "undefined-var": "{{$nope + [[0]]}}", "dangling-op": "{{[[0]] +}}", "double-op": "{{[[0]] * / 2}}", "empty-parens": "{{[[0]] + ()}}",
    "call-unclosed-at-end": "{{max(3, 2 + [[0]]}}", "call-unclosed-abs": "{{abs([[0]]}}", "call-unclosed-nested": "{{1 + max(2, abs([[0]])}}", "call-unclosed-empty": "{{random(}}",
    "call-extra-close": "{{abs([[0]]))}}", "call-missing-comma": "{{max(1 [[0]])}}", "call-trailing-comma": "{{max([[0]],)}}", "only-open": "{{(}}", "nested-unclosed": "{{((1 + [[0]])}}",
    **{f"arity-over-{f}": "{{%s([[0]], %s)}}" % (f, ", ".join(["2"] * n)) for f, n in
       [(f1, 1) for f1 in ("abs", "ceil", "floor", "fract", "sign", "sqrt", "log", "exp", "sin", "cos", "tan", "asin", "acos", "atan", "not", "trunc", "round")] +
       [(f2, 2) for f2 in ("pow", "divmod", "r2p", "p2r", "randint", "lt", "le", "gt", "ge", "eq", "ne", "and", "or", "xor", "swap")] + [(f3, 3) for f3 in ("clamp", "mix", "if")]},
    **{f"arity-under-{f}": "{{%s([[0]]%s)}}" % (f, ", 2" * n) for f, n in
       [(f2, 0) for f2 in ("divmod", "r2p", "p2r", "randint", "lt", "le", "gt", "ge", "eq", "ne", "and", "or", "xor", "swap")] + [(f3, 1) for f3 in ("if",)]},
    "arity-over-listvar": None,
    "circular": None, "self-ref": None, "trailing": "{{[[0]] 2}}", "arity-mix": "{{mix([[0]], 1)}}", "select-range": "{{select(5, [[0]], 1)}}",
}
# results are printed with at most three decimals, without trailing zeros, integers without a fraction (property C14 via C09:
# "exact up to the 3-decimal output rounding"); the expected strings are computed by an independent formatter (engine.fstr_py)
FORMAT_CASES = ["20.0004", "30.0004", "1000.0002", "-50.0003", "91.0004", "0.5", "0.125", "0.1", "2.5", "1234.5678", "0.0004", "-0.0004", "100", "1000000", "3000000000", "-3000000000", "16777216",
                "10.10", "10.01", "10.001", "10.0001", "1.0005", "7.9996", "99.9996", "199.99951", "0.999", "0.9996", "-0.9996", "40", "400", "4000", "40000.5", "123456.789", "0.001", "0.002",
                "12.340", "12.300", "12.000", "-12.000", "5e0" if False else "5", "250.0001", "60.00049", "70.0004", "80.0003", "90.0002", "110.0001", "120.0004", "0.05", "0.005", "0.0005"]
# IEEE semantics with NaN / infinite operands: every ordered comparison with NaN is false, ne is true
SPECIAL_CMP = [("sqrt(-1) le 0", "0"), ("sqrt(-1) ge 0", "0"), ("sqrt(-1) lt 0", "0"), ("sqrt(-1) gt 0", "0"), ("sqrt(-1) eq sqrt(-1)", "0"), ("sqrt(-1) ne 0", "1"), ("0 le sqrt(-1)", "0"), ("0 ge sqrt(-1)", "0"),
               ("1/0 gt 1000000", "1"), ("-1/0 lt -1000000", "1"), ("1/0 ge 1/0", "1"), ("1/0 le 1/0", "1"), ("1/0 eq 1/0", "1"), ("0/0 le 1/0", "0"), ("0/0 ge -1/0", "0"),
               ("le(sqrt(-1), 0)", "0"), ("ge(sqrt(-1), 0)", "0"), ("lt(0/0, 1)", "0"), ("gt(0/0, 1)", "0"), ("not(0/0)", "0"), ("if(0/0, 1, 2)", "1"), ("(0/0 le 1) or (1 le 2)", "1"), ("(0/0 ge 1) and 1", "0")]
# non-finite results are values like any other: they are printed (inf, -inf, NaN), stored in variables and compared
NONFINITE = [("1/0", "inf"), ("0 - 1/0", "-inf"), ("0/0", "NaN"), ("log(0)", "-inf"), ("exp(100)", "inf"), ("sqrt(-1)", "NaN"), ("pow(10, 40)", "inf"), ("asin(2)", "NaN"),
             ("1/0 - 1/0", "NaN"), ("0 * (1/0)", "NaN"), ("max(1, 1/0)", "inf"), ("min(0 - 1/0, 3)", "-inf"), ("abs(0 - 1/0)", "inf"), ("1e38 * 10", "inf")]
# conditions: a single number, true iff non-zero (however small, whatever sign); anything else is an error, not a truth value
COND_CASES = [("-0.0003", True), ("0.0004", True), ("0.00001", True), ("-1", True), ("0", False), ("0.0", False), ("-0", False), ("{{1 - 1}}", False), ("{{0.1 + 0.2 - 0.3}}", None),
              ("0, 0", "err"), ("1, 2", "err"), ("'no'", "err"), ("divmod(6, 3)", "err"), ("", "err"), ("1/0", True), ("0/0", None)]
# function forms of comparisons work on the values, not on their 3-decimal renderings
CLOSE_CMP = [("eq(0.1234, 0.1232)", "0"), ("ne(0.1234, 0.1232)", "1"), ("eq(1 / 3, 0.3333)", "0"), ("ne(1 / 3, 0.3333)", "1"), ("eq(0.00004, 0)", "0"), ("ne(0.00004, 0)", "1"),
             ("lt(0.1232, 0.1234)", "1"), ("gt(0.1234, 0.1232)", "1"), ("le(0.1234, 0.1232)", "0"), ("ge(0.1232, 0.1234)", "0"), ("0.1234 eq 0.1232", "0"), ("0.1234 ne 0.1232", "1"),
             ("0.1232 lt 0.1234", "1"), ("eq(2.5, 2.5)", "1"), ("eq(1000.0001, 1000.0002)", "0"), ("max(0.1232, 0.1234) eq 0.1234", "1"), ("min(0.00004, 0.00005) lt 0.00005", "1"),
             ("in(0.1234, 0.1232, 0.1233)", "0"), ("if(0.0004, 1, 2)", "1"), ("not(0.0004)", "0"), ("0.0004 and 1", "1"), ("0.0004 or 0", "1"), ("xor(0.0004, 0)", "1")]
RANDOM_VARIANTS = ["same-twice", "same-twice-text", "same-thrice", "reuse-attr-override", "reuse-attr-override2", "loop-count-random", "loop-count-random3", "for-data-random", "while-random", "textvar-for3", "textvar-if2", "textvar-expr2", "textvar-while2", "geom", "text", "circle-r", "var", "if", "comment", "relpos", "g-attr", "two-in-one", "loop-body", "reuse-attr",
                   "randint", "randint-same", "randint-frac", "randint-neg", "random-in-expr", "randint-in-cond"]


# ---------------------------------------------------------------- single-precision reference evaluator
# Every operator and every function below is "the conventional formula, each step rounded to single precision".  For + - * /
# and sqrt, computing in double precision and rounding once to single gives the correctly rounded single result (53 >= 2*24+2),
# so this python evaluator is exact.  Trees are ground; the expected text is the 3-decimal rendering of the reference value.
def r32(x):
    import struct as _st
    try:
        return _st.unpack(">f", _st.pack(">f", x))[0]
    except OverflowError:
        return float("inf") if x > 0 else float("-inf")


def ev32(t):
    import math
    if not isinstance(t, tuple):
        return r32(float(t))
    op, a = t[0], [ev32(x) for x in t[1:]]
    if op == "+":
        return r32(a[0] + a[1])
    if op == "-":
        return r32(a[0] - a[1])
    if op == "*":
        return r32(a[0] * a[1])
    if op == "/":
        return r32(a[0] / a[1])
    if op == "%":
        m = math.fmod(a[0], a[1])
        return r32(m + abs(a[1])) if m < 0 else m
    if op == "neg":
        return -a[0]
    if op == "abs":
        return abs(a[0])
    if op == "min":
        return min(a)
    if op == "max":
        return max(a)
    if op == "sqrt":
        return r32(math.sqrt(a[0]))
    if op == "mix":     # GLSL: a*(1-c) + b*c
        return r32(r32(a[0] * r32(1.0 - a[2])) + r32(a[1] * a[2]))
    if op == "clamp":
        return min(max(a[0], a[1]), a[2])
    if op == "floor":
        return float(math.floor(a[0]))
    if op == "ceil":
        return float(math.ceil(a[0]))
    raise ValueError(op)


def txt32(t, top=True):
    """minimal parentheses: a left operand of the same precedence level is written bare (left-to-right chains), as is a
    multiplicative operand of an additive operator; everything else is parenthesised"""
    if not isinstance(t, tuple):
        return t
    op = t[0]
    if op in "+-*/%":
        lvl = lambda x: (1 if x[0] in "+-" else 2) if isinstance(x, tuple) and x[0] in "+-*/%" else 3
        me = 1 if op in "+-" else 2
        l, r = txt32(t[1], False), txt32(t[2], False)
        if lvl(t[1]) < me:
            l = f"({l})"
        if lvl(t[2]) <= me:
            r = f"({r})"
        if isinstance(t[2], str) and t[2].startswith("-"):
            r = f"({r})"
        return f"{l} {op} {r}"
    a = [txt32(x, True) for x in t[1:]]
    if op == "neg":
        return f"(-({a[0]}))"
    return f"{op}({', '.join(a)})"


ROUNDING_FIXED = [("+", "16777216", "1"), ("+", ("+", "16777216", "1"), "1"), ("+", "16777216", ("+", "1", "1")), ("-", ("+", "100000000", "1"), "100000000"), ("+", "0.1", "0.2"), ("*", ("/", "1", "3"), "3"),
                  ("mix", "30000000", "0.5", "1"), ("mix", "0.5", "30000000", "0"), ("mix", "100000000", "3", "1"), ("mix", "3", "100000000", "0"), ("mix", "20000000", "1.25", "1"), ("mix", "1", "3", "0.25"),
                  ("-", ("+", "33554432", "3"), "33554432"), ("*", ("+", "16777216", "1"), "2"), ("/", ("*", "3000000", "7"), "7"), ("-", ("*", "0.1", "3"), "0.3"), ("*", ("-", "1", "0.9"), "1000"),
                  ("+", ("-", "0.5", "30000000"), "30000000"), ("+", "30000000", ("-", "0.5", "30000000")), ("%", "16777217", "2"), ("%", "-7.5", "2"), ("%", "7.5", "-2"), ("sqrt", ("*", "16777216", "16777216")),
                  ("clamp", ("+", "16777216", "1"), "0", "16777217"), ("abs", ("-", "1", ("+", "1", "0.00000001"))), ("*", ("+", "1", "0.00000006"), "16777216"), ("-", ("*", "4097", "4097"), "16785408"),
                  ("floor", ("+", "8388608", "0.5")), ("ceil", ("-", "0.5", "8388608")), ("max", ("+", "16777216", "1"), "16777216.5"), ("min", ("-", "0", "16777217"), "-16777216")]
ROUND_LEAVES = ["0.5", "3", "7.25", "0.001", "0.1", "1.25", "10000000", "30000000", "16777216", "100000000", "8388608", "1", "2", "0.3", "12345.678", "999999", "0.0625", "33554432"]


def gen_round_tree(rng, depth):
    if depth == 0 or rng.random() < 0.2:
        return rng.choice(ROUND_LEAVES)
    op = rng.choice(["+", "-", "*", "+", "-", "mix", "/", "%", "min", "max", "abs", "neg", "clamp", "mix"])
    if op == "mix":
        return ("mix", gen_round_tree(rng, depth - 1), gen_round_tree(rng, depth - 1), rng.choice(["0", "1", "0.5", "0.25", "1", "0"]))
    if op in ("abs", "neg"):
        return (op, gen_round_tree(rng, depth - 1))
    if op == "clamp":
        lo, hi = sorted([rng.choice(ROUND_LEAVES), rng.choice(ROUND_LEAVES)], key=float)
        return ("clamp", gen_round_tree(rng, depth - 1), lo, hi)
    if op in ("/", "%"):
        return (op, gen_round_tree(rng, depth - 1), rng.choice(["3", "7", "0.5", "2", "10", "0.1"]))
    return (op, gen_round_tree(rng, depth - 1), gen_round_tree(rng, depth - 1))


def count_tag(out, tag):
    return len(re.findall(r"<%s[ />]" % tag, out or ""))


def ctx_doc(ctx, expr, vars_):
    """wrap an expression into a document; returns (doc, reader(o) -> list of value strings)"""
    if ctx == "attr":
        return f'<svg><rect wh="1" data-v="{{{{{expr}}}}}"/></svg>', lambda o: o.by_tag("rect")[0].get("data-v")
    if ctx == "geom":
        return f'<svg><rect wh="1" x="{{{{{expr}}}}}" y="0"/></svg>', lambda o: o.by_tag("rect")[0].get("x")
    if ctx == "text":
        return f'<svg><text xy="0" text="{{{{{expr}}}}}"/></svg>', lambda o: (o.by_tag("text")[0].text or "")
    if ctx == "var":
        return f'<svg><var q="{{{{{expr}}}}}"/><rect wh="1" data-v="$q"/></svg>', lambda o: o.by_tag("rect")[0].get("data-v")
    if ctx == "comment":
        return f'<svg><rect wh="1" _="{{{{{expr}}}}}"/></svg>', lambda o: re.search(r"<!-- (.*?) -->", o.xml).group(1)
    raise ValueError(ctx)


import re


def out_terms(o, s):
    return [o.tok(x) for x in re.split(r"[\s,]+", (s or "").strip()) if x]


def build(td, wrong=False):
    fam = td["fam"]
    if fam == "chain":
        n = td["n"]
        sh = shapes(n)[td["shape"]]
        tree = fill(sh, td["ops"], LEAVES[:n + 1])
        negpos = td["neg"]
        if negpos == "leaf0":
            tree = _map_leaf(tree, 0, lambda x: ("neg", x))
        elif negpos == "leaf1":
            tree = _map_leaf(tree, 1, lambda x: ("neg", x))
        elif negpos == "leaflast":
            tree = _map_leaf(tree, n, lambda x: ("neg", x))
        elif negpos == "whole":
            tree = ("neg", tree)
        elif negpos == "inner" and not isinstance(tree[1], str):
            tree = (tree[0], ("neg", tree[1]), tree[2])
        vars_ = [(3 + 2 * i, *V) for i in range(n + 1)]
        ctx = td["ctx"]
        leaf_txt = {L: f"[[{i}]]" for i, L in enumerate(LEAVES[:n + 1])}
        leaf_smt = {L: f"v{i}" for i, L in enumerate(LEAVES[:n + 1])}
        pre = ""
        if ctx == "varleaf":
            pre = "".join(f'<var q{i}="[[{i}]]"/>' for i in range(n + 1))
            leaf_txt = {L: f"$q{i}" for i, L in enumerate(LEAVES[:n + 1])}
            ctx = "attr"
        elif ctx == "listvar":
            pre = '<var lst="' + ", ".join(f"[[{i}]]" for i in range(n + 1)) + '"/>'
            leaf_txt = {L: f"select({i}, $lst)" for i, L in enumerate(LEAVES[:n + 1])}
            ctx = "attr"
        expr = render(_subst(tree, leaf_txt))
        doc, reader = ctx_doc(ctx, expr, vars_)
        if pre:
            doc = doc.replace("<svg>", "<svg>" + pre, 1)
        mode = "euf" if td["ctx"] != "geom" else "int"
        wrong_tree = tree
        if wrong:
            # deliberately wrong reference: the outermost operator applied right-to-left
            wrong_tree = (tree[0], tree[2], tree[1]) if not isinstance(tree, str) and tree[0] != "neg" else ("neg", tree)

        def check(r):
            if r.status != "ok":
                return [Obl("transform-ok", FAIL, ground=True, note=r.docs[0]["msg"][:200])]
            o = Out(r.output)
            got = out_terms(o, reader(o))
            if len(got) != 1:
                return [Obl("single-value", FAIL, ground=True, note=str(reader(o)))]
            if mode == "int" and ("%" in td["ops"] or "/" in td["ops"]):
                return [Obl("value", PASS, ground=True, note="division/remainder in a geometry attribute: decided in the pass-through context")]
            if r.native and mode == "euf":
                # replay on the real build: the operations are interpreted (real arithmetic), compared up to the 3-decimal
                # output rounding and single-precision error; trees dividing by zero are not judged here
                rr = ref_real(wrong_tree, leaf_smt)
                tol = f"(+ 0.00051 (* 0.000001 (rabs {rr})))"
                return [Obl("value-is-reference-tree", and_(*(has_zero_divisor_guard(wrong_tree, leaf_smt) + [not_(f"(and (<= (- {got[0]} {rr}) {tol}) (<= (- {rr} {got[0]}) {tol}))")])), mode="real")]
            ref = ref_euf(wrong_tree, leaf_smt) if mode == "euf" else ref_real(wrong_tree, leaf_smt)
            return [Obl("value-is-reference-tree", ne(got[0], ref), mode=mode)]
        return Template(f"chain/{expr}/{td['ctx']}", doc, vars_, check, family=f"chain{n}", role="C14/chain", cap=4, meta=dict(expr=expr))
    if fam == "cmp":
        cmp_, form = td["cmp"], td["form"]
        vars_ = [(3, *V), (5, *V), (2, *V), (7, *V)]
        A, B, C, D = "v0", "v1", "v2", "v3"
        smtcmp = {"eq": eq, "ne": ne, "gt": gt, "ge": ge, "lt": lt, "le": le}[cmp_]
        if form == "plain":
            expr, truth = f"[[0]] {cmp_} [[1]]", smtcmp(A, B)
        elif form == "arith":
            expr, truth = f"[[0]] + [[1]] {cmp_} [[2]] * 2 - [[3]]", smtcmp(plus(A, B), minus(mul(C, "2.0"), D))
        else:
            lop = form.split("-")[1]
            expr = f"[[0]] {cmp_} [[1]] {lop} [[2]] lt [[3]]"
            t1, t2 = smtcmp(A, B), lt(C, D)
            truth = {"and": and_(t1, t2), "or": or_(t1, t2), "xor": f"(xor {t1} {t2})"}[lop]
        if wrong:
            truth = not_(truth)
        ctx = td["ctx"]
        if ctx == "attr":
            doc = f'<svg><rect wh="1" data-v="{{{{{expr}}}}}"/></svg>'

            def check(r):
                if r.status != "ok":
                    return [Obl("transform-ok", FAIL, ground=True, note=r.docs[0]["msg"][:200])]
                v = Out(r.output).by_tag("rect")[0].get("data-v")
                if v not in ("0", "1"):
                    return [Obl("comparison-yields-0-or-1", FAIL, ground=True, note=str(v))]
                return [Obl("comparison-value", truth if v == "0" else not_(truth))]
        elif ctx == "if":
            doc = f'<svg><if test="{expr}"><circle r="1"/></if><rect wh="1"/></svg>'

            def check(r):
                if r.status != "ok":
                    return [Obl("transform-ok", FAIL, ground=True, note=r.docs[0]["msg"][:200])]
                taken = len(Out(r.output).by_tag("circle")) == 1
                return [Obl("if-body-iff-test", not_(truth) if taken else truth)]
        else:
            doc = f'<svg><var n="0"/><loop while="{{{{({expr}) and $n lt 1}}}}"><circle r="1"/><var n="{{{{$n + 1}}}}"/></loop><rect wh="1"/></svg>'

            def check(r):
                if r.status != "ok":
                    return [Obl("transform-ok", FAIL, ground=True, note=r.docs[0]["msg"][:200])]
                taken = len(Out(r.output).by_tag("circle")) == 1
                return [Obl("while-body-iff-test", not_(truth) if taken else truth)]
        return Template(f"cmp/{cmp_}/{form}/{ctx}", doc, vars_, check, family="comparison-logic", role="C14/cmp", cap=16)
    if fam == "func":
        etxt, ref = FUNCS[td["f"]]
        vars_ = [(3, *V), (5, *V), (2, *V)]
        if td["f"] in ("clamp",):
            vars_ = [(3, *V), (-5, *V), (9, *V)]
        expr = re.sub(r"\b([ABC])\b", lambda m: f"[[{'ABC'.index(m.group(1))}]]", etxt)
        doc = f'<svg><rect wh="1" data-v="{{{{{expr}}}}}"/></svg>'

        def check(r):
            if r.status != "ok":
                if td["f"] == "clamp" and "min" in r.docs[0]["msg"]:
                    return [Obl("clamp-rejected-only-for-min>max", le("v1", "v2"))]
                return [Obl("transform-ok", FAIL, ground=True, note=r.docs[0]["msg"][:200])]
            o = Out(r.output)
            got = out_terms(o, o.by_tag("rect")[0].get("data-v"))
            exp = ref("v0", "v1", "v2")
            if len(got) != len(exp):
                return [Obl("result-arity", FAIL, ground=True, note=f"{len(got)} values, expected {len(exp)}")]
            obls = []
            for i, (g, e) in enumerate(zip(got, exp)):
                if wrong and i == 0:
                    e = plus(e, "1.0")
                guard = le("v1", "v2") if td["f"] == "clamp" else "true"
                obls.append(Obl(f"{td['f']}[{i}]", and_(guard, ne(g, e))))
            return obls
        return Template(f"func/{td['f']}", doc, vars_, check, family="builtin", role=f"C14/func/{td['f']}", cap=24)
    if fam == "malformed":
        case = td["case"]
        if case == "circular":
            doc = '<svg><var a="{{$b + 1}}" b="{{$a + [[0]]}}"/><rect wh="1" data-v="{{$a}}"/></svg>'
        elif case == "self-ref":
            doc = '<svg><var a="$a + [[0]]"/><rect wh="1" data-v="{{$a}}"/></svg>'
        elif case == "arity-over-listvar":
            doc = '<svg><var p="[[0]], 2, 3"/><rect wh="1" data-v="{{gt($p)}}"/></svg>'
        else:
            doc = f'<svg><rect wh="1" data-v="{MALFORMED[case]}"/></svg>'

        def check(r):
            return [Obl(f"malformed-{case}-fails", PASS if r.status == "err" else FAIL, ground=True, note=r.status + " " + (r.output or "")[:150])]
        return Template(f"malformed/{case}", doc, [(3, *V)], check, family="malformed", role=f"C14/malformed/{case}", cap=2)
    if fam == "format":
        cases = FORMAT_CASES[td["lo"]:td["hi"]]
        doc = "<svg>" + "".join(f'<rect wh="1" data-v="{{{{{c}}}}}" data-w="{{{{{c} + 0}}}}"/>' for c in cases) + f'<rect xy="[[0]] 0" wh="1"/></svg>'

        def check_fmt(r):
            if r.status != "ok":
                return [Obl("transform-ok", FAIL, ground=True, note=r.docs[0]["msg"][:200])]
            import struct as _st
            o = Out(r.output)
            els = [e for e in o.by_tag("rect") if e.get("data-v") is not None]
            obls = []
            for c, e in zip(cases, els):
                f32v = _st.unpack(">f", _st.pack(">f", float(c)))[0]
                want = fstr_py(f32v)
                for a in ("data-v", "data-w"):
                    obls.append(Obl(f"format({c})", PASS if e.get(a) == want else FAIL, ground=True, note=f"{e.get(a)!r} expected {want!r}"))
            return obls
        return Template(f"format/{td['lo']}", doc, [(3, *V)], check_fmt, family="result-formatting", role="C14/format", cap=2)
    if fam == "special":
        doc = f'<svg><rect xy="[[0]] 0" wh="1" data-v="{{{{{td["expr"]}}}}}"/></svg>'

        def check_sp(r):
            if r.status != "ok":
                return [Obl("transform-ok", FAIL, ground=True, note=r.docs[0]["msg"][:200])]
            got = Out(r.output).by_tag("rect")[0].get("data-v")
            return [Obl(f"ieee({td['expr']})", PASS if got == td["want"] else FAIL, ground=True, note=f"{got!r} expected {td['want']!r}")]
        return Template(f"special/{td['expr']}", doc, [(3, *V)], check_sp, family="nan-inf-comparisons", role="C14/special", cap=2)
    if fam == "rounding":
        if td["fixed"]:
            trees = ROUNDING_FIXED[td["fixed"][0]:td["fixed"][1]]
        else:
            rng, trees = random.Random(td["gseed"]), []
            while len(trees) < 10:
                t = gen_round_tree(rng, 3)
                v = ev32(t)
                if v == v and abs(v) < 2e9:
                    trees.append(t)
        doc = "<svg>" + "".join(f'<rect wh="1" data-v="{{{{{txt32(t)}}}}}"/>' for t in trees) + '<rect xy="[[0]] 0" wh="1"/></svg>'

        def check_rd(r):
            if r.status != "ok":
                return [Obl("transform-ok", FAIL, ground=True, note=r.docs[0]["msg"][:200])]
            els = [e for e in Out(r.output).by_tag("rect") if e.get("data-v") is not None]
            return [Obl(f"single-precision({txt32(t)})", PASS if e.get("data-v") == fstr_py(ev32(t)) else FAIL, ground=True, note=f"{e.get('data-v')!r} expected {fstr_py(ev32(t))!r}") for t, e in zip(trees, els)]
        name = f"rounding/fixed{td['fixed'][0]}" if td["fixed"] else f"rounding/gen{td['gseed']}"
        return Template(name, doc, [(3, *V)], check_rd, family="single-precision-rounding", role="C14/rounding", cap=2)
    if fam == "nonfinite":
        e, want, ctx = td["expr"], td["want"], td["ctx"]
        doc = {"attr": f'<svg><rect xy="[[0]] 0" wh="1" data-v="{{{{{e}}}}}"/></svg>', "var": f'<svg><var q="{{{{{e}}}}}"/><rect xy="[[0]] 0" wh="1" data-v="$q"/></svg>',
               "text": f'<svg><rect xy="[[0]] 0" wh="1" text="{{{{{e}}}}}"/></svg>', "geom-free": f'<svg><rect xy="[[0]] 0" wh="1" data-v="{{{{if(gt({e}, 0), 1, 2)}}}}"/></svg>'}[ctx]

        def check_nf(r):
            if r.status != "ok":
                return [Obl("non-finite-value-is-a-value", FAIL, ground=True, note=r.status + " " + r.docs[0]["msg"][:200])]
            o = Out(r.output)
            if ctx == "text":
                got = (o.by_tag("text")[0].text or "").strip()
            else:
                got = o.by_tag("rect")[0].get("data-v")
            if ctx == "geom-free":
                exp = "1" if want == "inf" else "2"
            else:
                exp = want
            return [Obl(f"prints({e})", PASS if got == exp else FAIL, ground=True, note=f"{got!r} expected {exp!r}")]
        return Template(f"nonfinite/{e}/{ctx}", doc, [(3, *V)], check_nf, family="non-finite-results", role="C14/nonfinite", cap=2)
    if fam == "cond":
        t, want, form = td["test"], td["want"], td["form"]
        if form == "if":
            doc = f'<svg><rect xy="[[0]] 0" wh="1"/><if test="{t}"><circle r="1"/></if></svg>'
        elif form == "while":
            doc = f'<svg><rect xy="[[0]] 0" wh="1"/><var n="0"/><loop while="eq($n, 0) and ({t if t else "()"})"><circle r="1"/><var n="1"/></loop></svg>' if False else \
                  f'<svg><config loop-limit="3"/><rect xy="[[0]] 0" wh="1"/><var n="0"/><loop while="{t}"><circle r="1"/><var n="{{{{$n + 1}}}}"/></loop></svg>'
        else:
            doc = f'<svg><config loop-limit="3"/><rect xy="[[0]] 0" wh="1"/><loop until="{t}"><circle r="1"/></loop></svg>'

        def check_c(r):
            n = count_tag(r.output, "circle") if r.status == "ok" else None
            if want == "err":
                return [Obl("not-a-single-number-is-an-error", PASS if r.status == "err" else FAIL, ground=True, note=f"{r.status} circles={n}")]
            if want is None:
                return [Obl("ok-or-error", PASS if r.status in ("ok", "err") else FAIL, ground=True, note=r.status)]
            if form == "if":
                good = r.status == "ok" and n == (1 if want else 0)
            elif form == "while":
                # true: runs until the loop limit stops it (an error); false: no pass
                good = (r.status == "err") if want else (r.status == "ok" and n == 0)
            else:
                # until: true ends after the first pass; false runs into the limit
                good = (r.status == "ok" and n == 1) if want else (r.status == "err")
            return [Obl(f"condition({t})-is-{want}", PASS if good else FAIL, ground=True, note=f"{r.status} circles={n} {r.docs[0]['msg'][:80]}")]
        return Template(f"cond/{form}/{t}", doc, [(3, *V)], check_c, family="conditions", role="C14/cond", cap=2)
    if fam == "random-once":
        v = td["variant"]
        R = "{{random()}}"
        probe = lambda i: f'<rect wh="1" data-r{i}="{R}"/>'
        mid = {"geom": f'<rect xy="{R} [[0]]" wh="1"/>', "text": f'<rect wh="1" text="{R}"/>', "circle-r": f'<circle r="{R}"/>', "var": f'<var q="{R}"/>',
               "if": f'<if test="{R}"><circle r="1"/></if>', "comment": f'<rect wh="1" _="{R}"/>', "relpos": f'<rect xy="^|h {R}" wh="1"/>', "g-attr": f'<g q="{R}"><rect wh="1"/></g>',
               "two-in-one": f'<rect xy="{R} 0" wh="1" data-x="{R}"/>', "loop-body": f'<loop count="2"><rect xy="{R} 0" wh="1"/></loop>',
               "reuse-attr": f'<specs><rect id="t" wh="$w 1"/></specs><reuse href="#t" w="{R}"/>',
               # the same expression text twice in one value is two occurrences
               "same-twice": f'<rect wh="1" data-x="{R} {R}"/>', "same-twice-text": f'<rect wh="9" text="{R}/{R}"/>', "same-thrice": f'<var q="{R},{R},{R}"/>',
               # a reuse attribute that overrides a same-named attribute of the target is still one occurrence
               "reuse-attr-override": f'<specs><rect id="t" wh="4" rx="1"/></specs><reuse href="#t" rx="{R}"/>',
               "reuse-attr-override2": f'<specs><circle id="t" r="2" opacity="0.5" data-q="$opacity"/></specs><reuse href="#t" opacity="{R}"/>',
               # every occurrence of a random function draws exactly once, whatever its arguments evaluate to
               # loop control expressions are occurrences too: evaluated once per loop (count) / once per test (while)
               "loop-count-random": '<loop count="{{randint(2, 2)}}"><rect wh="1"/></loop>', "loop-count-random3": '<loop count="{{randint(3, 3) - 2}}"><rect wh="2"/></loop>',
               "for-data-random": '<for var="q" data="randint(5, 5), 7"><rect wh="$q"/></for>', "while-random": '<var n="0"/><loop while="lt($n, 1) and ge(random(), 0)"><var n="1"/></loop>',
               # a variable that holds the text of a random call draws at every reference, also within one expression
               "textvar-for3": '<var r="random()"/><for data="$r, $r, $r" var="q"><rect wh="1" data-q="$q"/></for>',
               "textvar-if2": '<var r="random()"/><if test="$r ne $r"><circle r="1"/></if>',
               "textvar-expr2": '<var r="random()"/><rect wh="1" data-q="{{$r - $r}}"/>',
               "textvar-while2": '<var r="random()" n="0"/><loop while="lt($n, 1) and ge($r + $r, 0)"><var n="1"/></loop>',
               "randint": '<rect wh="1" data-i="{{randint(1, 6)}}"/>', "randint-same": '<rect wh="1" data-i="{{randint(3, 3)}}"/>',
               "randint-frac": '<rect wh="1" data-i="{{randint(2.2, 2.9)}}"/>', "randint-neg": '<rect wh="1" data-i="{{randint(-4, -4)}}"/>',
               "random-in-expr": '<rect wh="1" data-i="{{0 * random() + 1}}"/>', "randint-in-cond": '<if test="{{randint(0, 0)}}"><circle r="1"/></if>'}[v]
        draws = {"textvar-for3": 3, "textvar-if2": 2, "textvar-expr2": 2, "textvar-while2": 4, "two-in-one": 2, "loop-body": 2, "while-random": 2, "same-twice": 2, "same-twice-text": 2, "same-thrice": 3}.get(v, 1)
        base_mid = "".join(f'<rect wh="1" data-m{j}="{R}"/>' for j in range(draws))
        d0 = f"<svg>{probe(1)}{mid}{probe(2)}{probe(3)}</svg>"
        d1 = f"<svg>{probe(1)}{base_mid}{probe(2)}{probe(3)}</svg>"

        def check(r):
            if any(d["status"] != "ok" for d in r.docs):
                return [Obl("transform-ok", FAIL, ground=True, note=str([d["msg"][:80] for d in r.docs]))]
            o0, o1 = Out(r.docs[0]["output"]), Out(r.docs[1]["output"])

            def vals(o):
                return [e.get(f"data-r{i}") for i in (1, 2, 3) for e in o.all if e.get(f"data-r{i}") is not None]
            a, b = vals(o0), vals(o1)
            return [Obl("random-stream-advances-once-per-occurrence", PASS if a == b and len(a) == 3 else FAIL, ground=True, note=f"{a} vs {b}")]
        return Template(f"random-once/{v}", [d0, d1], [(3, *V)], check, family="single-evaluation", role="C14/random-once", cap=2)
    raise ValueError(fam)


def _subst(t, m):
    if isinstance(t, str):
        return m[t]
    if t[0] == "neg":
        return ("neg", _subst(t[1], m))
    return (t[0], _subst(t[1], m), _subst(t[2], m))


def _map_leaf(t, idx, f):
    cnt = [0]

    def go(t):
        if isinstance(t, str):
            i = cnt[0]
            cnt[0] += 1
            return f(t) if i == idx else t
        if t[0] == "neg":
            return ("neg", go(t[1]))
        return (t[0], go(t[1]), go(t[2]))
    return go(t)
