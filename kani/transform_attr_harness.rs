
// ---- appended by /verif to a scratch copy of src/transform_attr.rs (never to /repo) ----
#[cfg(kani)]
mod verif_kani {
    use super::*;

    fn dy() -> f32 {
        let k: i32 = kani::any();
        kani::assume(k >= -32768 && k <= 32768);
        k as f32 / 8.0
    }

    // C08: translate/scale are applied right-to-left; other kinds leave the box alone
    #[kani::proof]
    #[kani::unwind(5)]
    fn k_xfrm_apply() {
        let bb = BoundingBox::new(dy(), dy(), dy(), dy());
        let (tx, ty) = (dy(), dy());
        let s: u8 = kani::any();
        kani::assume(s < 3);
        let sc = [0.5f32, 1.0, 2.0][s as usize];
        let t = TransformAttr {
            transforms: vec![TransformType::Translate(tx, ty), TransformType::Scale(sc, sc), TransformType::Rotate(30.0, 0.0, 0.0)],
        };
        let r = t.apply(&bb);
        // rotate ignored, then scale, then translate
        assert!(r.x1 == bb.x1 * sc + tx && r.y1 == bb.y1 * sc + ty && r.x2 == bb.x2 * sc + tx && r.y2 == bb.y2 * sc + ty);
        core::mem::forget(t);
    }
}
