
// ---- appended by /verif to a scratch copy of src/expression.rs (never to /repo) ----
#[cfg(kani)]
mod verif_kani {
    use super::*;
    use crate::context::{ElementMap, VariableMap};
    use crate::element::SvgElement;
    use crate::functions::Function;
    use crate::position::{BoundingBox, Size};
    use crate::types::ElRef;
    use rand::SeedableRng;
    use rand_pcg::Pcg32;
    use std::cell::RefCell;

    struct Ctx {
        rng: RefCell<Pcg32>,
    }
    impl ElementMap for Ctx {
        fn get_element(&self, _e: &ElRef) -> Option<&SvgElement> {
            None
        }
        fn get_element_bbox(&self, _el: &SvgElement) -> Result<Option<BoundingBox>> {
            Ok(None)
        }
        fn get_element_size(&self, _el: &SvgElement) -> Result<Option<Size>> {
            Ok(None)
        }
    }
    impl VariableMap for Ctx {
        fn get_var(&self, _name: &str) -> Option<String> {
            None
        }
        fn get_rng(&self) -> &RefCell<Pcg32> {
            &self.rng
        }
    }
    impl ContextView for Ctx {}

    // error messages are not the subject: formatting is cut (DESIGN.md §4)
    fn fmt_stub(_args: core::fmt::Arguments<'_>) -> String {
        String::new()
    }

    /// every f32 bit pattern, 0..=3 arguments: eval_function must return Ok or Err
    fn total(f: Function) {
        let ctx = Ctx {
            rng: RefCell::new(Pcg32::seed_from_u64(0)),
        };
        let mut es = EvalState::new(Vec::<Token>::new(), &ctx, &[]);
        let n: usize = kani::any();
        kani::assume(n <= 3);
        let mut v = Vec::with_capacity(3);
        for _ in 0..n {
            v.push(ExprValue::Number(kani::any()));
        }
        let args = ExprValue::List(v);
        let r = eval_function(f, &args, &mut es);
        kani::cover!(r.is_ok(), "reaches an Ok result");
        kani::cover!(r.is_err(), "reaches an Err result");
        core::mem::forget(r);
        core::mem::forget(args);
    }

    // libm-backed methods (tanf, asinf, acosf, atanf, atan2f, hypotf are foreign functions Kani does not model) are replaced by
    // an arbitrary f32 result: an over-approximation, sound for "never panics"
    fn any1(_x: f32) -> f32 {
        kani::any()
    }
    fn any2(_x: f32, _y: f32) -> f32 {
        kani::any()
    }
    macro_rules! fn_total_libm {
        ($name:ident, $f:expr) => {
            #[kani::proof]
            #[kani::unwind(6)]
            #[kani::stub(alloc::fmt::format, fmt_stub)]
            #[kani::stub(f32::tan, any1)]
            #[kani::stub(f32::asin, any1)]
            #[kani::stub(f32::acos, any1)]
            #[kani::stub(f32::atan, any1)]
            #[kani::stub(f32::atan2, any2)]
            #[kani::stub(f32::hypot, any2)]
            fn $name() {
                total($f)
            }
        };
    }
    fn_total_libm!(k_fn_total3_tan, Function::Tan);
    fn_total_libm!(k_fn_total3_asin, Function::Asin);
    fn_total_libm!(k_fn_total3_acos, Function::Acos);
    fn_total_libm!(k_fn_total3_atan, Function::Atan);
    fn_total_libm!(k_fn_total3_r2p, Function::Rect2Polar);

    macro_rules! fn_total {
        ($name:ident, $f:expr) => {
            #[kani::proof]
            #[kani::unwind(6)]
            #[kani::stub(alloc::fmt::format, fmt_stub)]
            fn $name() {
                total($f)
            }
        };
    }
    fn_total!(k_fn_total_abs, Function::Abs);
    fn_total!(k_fn_total_ceil, Function::Ceil);
    fn_total!(k_fn_total_floor, Function::Floor);
    fn_total!(k_fn_total_fract, Function::Fract);
    fn_total!(k_fn_total_sign, Function::Sign);
    fn_total!(k_fn_total_divmod, Function::DivMod);
    fn_total!(k_fn_total_sqrt, Function::Sqrt);
    fn_total!(k_fn_total_log, Function::Log);
    fn_total!(k_fn_total_exp, Function::Exp);
    fn_total!(k_fn_total_pow, Function::Pow);
    fn_total!(k_fn_total_sin, Function::Sin);
    fn_total!(k_fn_total_cos, Function::Cos);
    fn_total!(k_fn_total_tan, Function::Tan);
    fn_total!(k_fn_total_asin, Function::Asin);
    fn_total!(k_fn_total_acos, Function::Acos);
    fn_total!(k_fn_total_atan, Function::Atan);
    fn_total!(k_fn_total_min, Function::Min);
    fn_total!(k_fn_total_max, Function::Max);
    fn_total!(k_fn_total_sum, Function::Sum);
    fn_total!(k_fn_total_product, Function::Product);
    fn_total!(k_fn_total_mean, Function::Mean);
    fn_total!(k_fn_total_clamp, Function::Clamp);
    fn_total!(k_fn_total_mix, Function::Mix);
    fn_total!(k_fn_total_eq, Function::Equal);
    fn_total!(k_fn_total_ne, Function::NotEqual);
    fn_total!(k_fn_total_lt, Function::LessThan);
    fn_total!(k_fn_total_le, Function::LessThanEqual);
    fn_total!(k_fn_total_gt, Function::GreaterThan);
    fn_total!(k_fn_total_ge, Function::GreaterThanEqual);
    fn_total!(k_fn_total_if, Function::If);
    fn_total!(k_fn_total_not, Function::Not);
    fn_total!(k_fn_total_and, Function::And);
    fn_total!(k_fn_total_or, Function::Or);
    fn_total!(k_fn_total_xor, Function::Xor);
    fn_total!(k_fn_total_swap, Function::Swap);
    fn_total!(k_fn_total_r2p, Function::Rect2Polar);
    fn_total!(k_fn_total_p2r, Function::Polar2Rect);
    fn_total!(k_fn_total_select, Function::Select);
    fn_total!(k_fn_total_addv, Function::Addv);
    fn_total!(k_fn_total_subv, Function::Subv);
    fn_total!(k_fn_total_scalev, Function::Scalev);
    fn_total!(k_fn_total_head, Function::Head);
    fn_total!(k_fn_total_tail, Function::Tail);
    fn_total!(k_fn_total_empty, Function::Empty);
    fn_total!(k_fn_total_count, Function::Count);
    fn_total!(k_fn_total_in, Function::In);

    /// randint(a, b) for every pair of f32 bit patterns (the generator state is concrete: seed 0)
    #[kani::proof]
    #[kani::unwind(6)]
    #[kani::stub(alloc::fmt::format, fmt_stub)]
    fn k_fn_total2_randint() {
        let ctx = Ctx {
            rng: RefCell::new(Pcg32::seed_from_u64(0)),
        };
        let mut es = EvalState::new(Vec::<Token>::new(), &ctx, &[]);
        let args = ExprValue::List(vec![
            ExprValue::Number(kani::any()),
            ExprValue::Number(kani::any()),
        ]);
        let r = eval_function(Function::RandInt, &args, &mut es);
        kani::cover!(r.is_ok(), "reaches an Ok result");
        kani::cover!(r.is_err(), "reaches an Err result");
        core::mem::forget(r);
        core::mem::forget(args);
    }

    /// random() with a concrete generator state
    #[kani::proof]
    #[kani::unwind(6)]
    #[kani::stub(alloc::fmt::format, fmt_stub)]
    fn k_fn_total2_random() {
        let ctx = Ctx {
            rng: RefCell::new(Pcg32::seed_from_u64(0)),
        };
        let mut es = EvalState::new(Vec::<Token>::new(), &ctx, &[]);
        let args = ExprValue::List(vec![]);
        let r = eval_function(Function::Random, &args, &mut es);
        kani::cover!(r.is_ok(), "reaches an Ok result");
        core::mem::forget(r);
        core::mem::forget(args);
    }
}
