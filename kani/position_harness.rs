
// ---- appended by /verif to a scratch copy of src/position.rs (never to /repo) ----
#[cfg(kani)]
mod verif_kani {
    use super::*;

    /// dyadic domain: multiples of 1/8 with |x| <= 4096 (exactly representable, sums/halvings stay exact)
    fn dy() -> f32 {
        let k: i32 = kani::any();
        kani::assume(k >= -32768 && k <= 32768);
        k as f32 / 8.0
    }
    fn dy_pos() -> f32 {
        let k: i32 = kani::any();
        kani::assume(k >= 0 && k <= 32768);
        k as f32 / 8.0
    }
    fn any_notnan() -> f32 {
        let x: f32 = kani::any();
        kani::assume(!x.is_nan());
        x
    }

    // C08: outward rounding.  Stated with exact integer steps (no float rounding inside the assertion).
    #[kani::proof]
    fn k_round_outward() {
        let (a, b, c, d): (f32, f32, f32, f32) = (kani::any(), kani::any(), kani::any(), kani::any());
        let lim = 8388608.0; // 2^23: every f32 of larger magnitude is already integral
        kani::assume(a.is_finite() && b.is_finite() && c.is_finite() && d.is_finite());
        kani::assume(a.abs() < lim && b.abs() < lim && c.abs() < lim && d.abs() < lim);
        let mut bb = BoundingBox::new(a, b, c, d);
        bb.round();
        assert!(bb.x1 <= a && bb.y1 <= b && bb.x2 >= c && bb.y2 >= d);
        assert!(bb.x1 == bb.x1.trunc() && bb.y1 == bb.y1.trunc() && bb.x2 == bb.x2.trunc() && bb.y2 == bb.y2.trunc());
        // tight: the next integer inwards is already strictly inside
        assert!(bb.x1 + 1.0 > a && bb.y1 + 1.0 > b && bb.x2 - 1.0 < c && bb.y2 - 1.0 < d);
        kani::cover!(bb.x1 < a);
    }

    // C08: border expansion moves each side outward by exactly the amount
    #[kani::proof]
    fn k_expand() {
        let (a, b, c, d, ex, ey) = (dy(), dy(), dy(), dy(), dy_pos(), dy_pos());
        let mut bb = BoundingBox::new(a, b, c, d);
        bb.expand(ex, ey);
        assert!(bb.x1 == a - ex && bb.y1 == b - ey && bb.x2 == c + ex && bb.y2 == d + ey);
    }

    // C08/C12: combine is the least upper bound of two boxes (full range, NaN excluded)
    #[kani::proof]
    fn k_combine_lub() {
        let p = BoundingBox::new(any_notnan(), any_notnan(), any_notnan(), any_notnan());
        let q = BoundingBox::new(any_notnan(), any_notnan(), any_notnan(), any_notnan());
        let u = p.combine(&q);
        assert!(u.x1 <= p.x1 && u.x1 <= q.x1 && (u.x1 == p.x1 || u.x1 == q.x1));
        assert!(u.y1 <= p.y1 && u.y1 <= q.y1 && (u.y1 == p.y1 || u.y1 == q.y1));
        assert!(u.x2 >= p.x2 && u.x2 >= q.x2 && (u.x2 == p.x2 || u.x2 == q.x2));
        assert!(u.y2 >= p.y2 && u.y2 >= q.y2 && (u.y2 == p.y2 || u.y2 == q.y2));
    }

    // C12/C08: intersect is the greatest lower bound, None iff the boxes are disjoint
    #[kani::proof]
    fn k_intersect_glb() {
        let p = BoundingBox::new(dy(), dy(), dy(), dy());
        let q = BoundingBox::new(dy(), dy(), dy(), dy());
        kani::assume(p.x1 <= p.x2 && p.y1 <= p.y2 && q.x1 <= q.x2 && q.y1 <= q.y2);
        let disjoint = p.x2 < q.x1 || q.x2 < p.x1 || p.y2 < q.y1 || q.y2 < p.y1;
        match p.intersect(&q) {
            None => assert!(disjoint),
            Some(i) => {
                assert!(!disjoint);
                assert!(i.x1 >= p.x1 && i.x1 >= q.x1 && (i.x1 == p.x1 || i.x1 == q.x1));
                assert!(i.y1 >= p.y1 && i.y1 >= q.y1 && (i.y1 == p.y1 || i.y1 == q.y1));
                assert!(i.x2 <= p.x2 && i.x2 <= q.x2 && (i.x2 == p.x2 || i.x2 == q.x2));
                assert!(i.y2 <= p.y2 && i.y2 <= q.y2 && (i.y2 == p.y2 || i.y2 == q.y2));
            }
        }
    }

    // C12: union over a list of three boxes
    #[kani::proof]
    #[kani::unwind(5)]
    fn k_union3() {
        let b = [
            BoundingBox::new(dy(), dy(), dy(), dy()),
            BoundingBox::new(dy(), dy(), dy(), dy()),
            BoundingBox::new(dy(), dy(), dy(), dy()),
        ];
        let u = BoundingBox::union(b).unwrap();
        assert!(u.x1 == b[0].x1.min(b[1].x1).min(b[2].x1));
        assert!(u.y2 == b[0].y2.max(b[1].y2).max(b[2].y2));
    }

    // C09: the nine named locations
    #[kani::proof]
    fn k_locspec_named() {
        let bb = BoundingBox::new(dy(), dy(), dy(), dy());
        let (cx, cy) = ((bb.x1 + bb.x2) / 2.0, (bb.y1 + bb.y2) / 2.0);
        assert!(bb.locspec(LocSpec::TopLeft) == (bb.x1, bb.y1));
        assert!(bb.locspec(LocSpec::Top) == (cx, bb.y1));
        assert!(bb.locspec(LocSpec::TopRight) == (bb.x2, bb.y1));
        assert!(bb.locspec(LocSpec::Right) == (bb.x2, cy));
        assert!(bb.locspec(LocSpec::BottomRight) == (bb.x2, bb.y2));
        assert!(bb.locspec(LocSpec::Bottom) == (cx, bb.y2));
        assert!(bb.locspec(LocSpec::BottomLeft) == (bb.x1, bb.y2));
        assert!(bb.locspec(LocSpec::Left) == (bb.x1, cy));
        assert!(bb.locspec(LocSpec::Center) == (cx, cy));
    }

    // C09/C13: edge offsets - absolute >= 0 from the start, < 0 back from the end
    #[kani::proof]
    fn k_calc_offset_abs() {
        let (s, e, o) = (dy(), dy(), dy());
        kani::assume(s <= e);
        let v = Length::Absolute(o).calc_offset(s, e);
        if o >= 0.0 {
            assert!(v == s + o);
        } else {
            assert!(v == e + o);
        }
    }

    // C09: edge offsets - ratios are linear between start and end, not clamped (dyadic ratios)
    #[kani::proof]
    fn k_calc_offset_ratio() {
        let (s, e) = (dy(), dy());
        let q: u8 = kani::any();
        kani::assume(q <= 8);
        let ratio = q as f32 / 4.0; // 0, 25%, ... 200%
        let v = Length::Ratio(ratio).calc_offset(s, e);
        assert!(v == s + (e - s) * ratio);
        if q == 0 {
            assert!(v == s);
        }
        if q == 4 {
            assert!(v == e);
        }
    }

    // C09: edge locations use the right edge and axis
    #[kani::proof]
    fn k_locspec_edges() {
        let bb = BoundingBox::new(dy(), dy(), dy(), dy());
        kani::assume(bb.x1 <= bb.x2 && bb.y1 <= bb.y2);
        let o = dy_pos();
        assert!(bb.locspec(LocSpec::TopEdge(Length::Absolute(o))) == (bb.x1 + o, bb.y1));
        assert!(bb.locspec(LocSpec::BottomEdge(Length::Absolute(o))) == (bb.x1 + o, bb.y2));
        assert!(bb.locspec(LocSpec::LeftEdge(Length::Absolute(o))) == (bb.x1, bb.y1 + o));
        assert!(bb.locspec(LocSpec::RightEdge(Length::Absolute(o))) == (bb.x2, bb.y1 + o));
    }

    // C09: scalar values of a box
    #[kani::proof]
    fn k_scalarspec() {
        let bb = BoundingBox::new(dy(), dy(), dy(), dy());
        kani::assume(bb.x1 <= bb.x2 && bb.y1 <= bb.y2);
        let (w, h) = (bb.x2 - bb.x1, bb.y2 - bb.y1);
        assert!(bb.scalarspec(ScalarSpec::Minx) == bb.x1 && bb.scalarspec(ScalarSpec::Maxx) == bb.x2);
        assert!(bb.scalarspec(ScalarSpec::Miny) == bb.y1 && bb.scalarspec(ScalarSpec::Maxy) == bb.y2);
        assert!(bb.scalarspec(ScalarSpec::Width) == w && bb.scalarspec(ScalarSpec::Height) == h);
        assert!(bb.scalarspec(ScalarSpec::Cx) == (bb.x1 + bb.x2) / 2.0 && bb.scalarspec(ScalarSpec::Cy) == (bb.y1 + bb.y2) / 2.0);
        assert!(bb.scalarspec(ScalarSpec::Rx) == w / 2.0 && bb.scalarspec(ScalarSpec::Ry) == h / 2.0);
        assert!(bb.scalarspec(ScalarSpec::Radius) == (w / 2.0).max(h / 2.0));
    }

    // C11: each of the six sufficient pairs on an axis describes the same extent (rect); one harness per pair
    fn pair_box(xmin: Option<f32>, xmax: Option<f32>, cx: Option<f32>, w: Option<f32>) -> Option<BoundingBox> {
        let mut p = Position::new("rect");
        p.xmin = xmin;
        p.xmax = xmax;
        p.cx = cx;
        p.width = w;
        p.ymin = Some(0.0);
        p.height = Some(1.0);
        p.to_bbox()
    }
    macro_rules! extent_pair {
        ($name:ident, $mk:expr) => {
            #[kani::proof]
            fn $name() {
                let (s, l) = (dy(), dy_pos());
                let e = s + l;
                let m = s + l / 2.0;
                let f: fn(f32, f32, f32, f32) -> Option<BoundingBox> = $mk;
                assert!(f(s, e, m, l) == Some(BoundingBox::new(s, 0.0, e, 1.0)));
            }
        };
    }
    extent_pair!(k_extent_pair_se, |s, e, _m, _l| pair_box(Some(s), Some(e), None, None));
    extent_pair!(k_extent_pair_sm, |s, _e, m, _l| pair_box(Some(s), None, Some(m), None));
    extent_pair!(k_extent_pair_em, |_s, e, m, _l| pair_box(None, Some(e), Some(m), None));
    extent_pair!(k_extent_pair_sl, |s, _e, _m, l| pair_box(Some(s), None, None, Some(l)));
    extent_pair!(k_extent_pair_el, |_s, e, _m, l| pair_box(None, Some(e), None, Some(l)));
    extent_pair!(k_extent_pair_ml, |_s, _e, m, l| pair_box(None, None, Some(m), Some(l)));

    // C11: a single value on an axis is not enough for a rect / circle without size
    #[kani::proof]
    fn k_extent_insufficient() {
        let v = dy();
        let mut p = Position::new("rect");
        p.xmin = Some(v);
        p.ymin = Some(v);
        assert!(p.to_bbox().is_none());
        let mut q = Position::new("line");
        q.xmin = Some(v);
        q.ymin = Some(v);
        assert!(q.to_bbox() == Some(BoundingBox::new(v, v, v, v)));
    }

    // C11: circles - one full axis plus one value on the other gives a square box
    #[kani::proof]
    fn k_circle_three_point() {
        let (s, l, c) = (dy(), dy_pos(), dy());
        let mut p = Position::new("circle");
        p.xmin = Some(s);
        p.width = Some(l);
        p.cy = Some(c);
        let bb = p.to_bbox().unwrap();
        assert!(bb.x1 == s && bb.x2 == s + l);
        assert!(bb.y1 == c - l / 2.0 && bb.y2 == c + l / 2.0);
    }

    // C12: margins - absolute sides exact, percentages of max(w,h) for growing and min(w,h) for shrinking
    #[kani::proof]
    fn k_trbl_abs() {
        let (x, y, w, h) = (dy(), dy(), dy_pos(), dy_pos());
        let (t, r, b, l) = (dy(), dy(), dy(), dy());
        let trbl = TrblLength::new(Length::Absolute(t), Length::Absolute(r), Length::Absolute(b), Length::Absolute(l));
        let mut g = BoundingBox::new(x, y, x + w, y + h);
        g.expand_trbl_length(trbl);
        assert!(g.x1 == x - l && g.y1 == y - t && g.x2 == x + w + r && g.y2 == y + h + b);
        let mut s = BoundingBox::new(x, y, x + w, y + h);
        s.shrink_trbl_length(trbl);
        assert!(s.x1 == x + l && s.y1 == y + t && s.x2 == x + w - r && s.y2 == y + h - b);
    }

}
